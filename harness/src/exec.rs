//! Executes histories on the real collections and writes the trace.

use crate::ops::*;
use crate::types::*;
use i_tree::key::array::IntoArray;
use i_tree::key::exp::KeyExpCollection;
use i_tree::key::list::KeyExpList;
use i_tree::key::tree::KeyExpTree;
use i_tree::map::list::MapList;
use i_tree::map::sort::MapCollection;
use i_tree::map::tree::MapTree;
use i_tree::seg::exp::{SegExpCollection, SegRange};
use i_tree::seg::tree::SegExpTree;
use i_tree::set::list::SetList;
use i_tree::set::sort::SetCollection;
use i_tree::set::tree::SetTree;
use i_tree::EMPTY_REF;
use std::cmp::Ordering;
use std::fmt::Write as FmtWrite;
use std::io::Write;
use std::panic::{catch_unwind, AssertUnwindSafe};

type Snap = (u32, Vec<(u32, u32, u32, bool)>, Vec<u32>, usize);

/// Abstracts the arena into a pre-order term, checking on the way that the links are mutually
/// consistent, in bounds, acyclic and never reach the sentinel.
fn tree_snapshot(snap: Snap, ent: &dyn Fn(u32) -> String) -> String {
    let (root, nodes, unused, ucap) = snap;
    let n = nodes.len() as u32;
    let mut s = String::new();
    let mut visited = vec![false; nodes.len()];
    // explicit stack of (index, expected parent)
    let mut stack: Vec<(u32, u32)> = vec![(root, EMPTY_REF)];
    let mut broken: Option<String> = None;
    while let Some((i, parent)) = stack.pop() {
        if i == EMPTY_REF {
            s.push_str(". ");
            continue;
        }
        if i >= n {
            broken = Some(format!("link {i} out of bounds (buffer length {n})"));
            break;
        }
        if i == 0 {
            broken = Some("sentinel slot 0 is linked into the tree".into());
            break;
        }
        if visited[i as usize] {
            broken = Some(format!("slot {i} reached twice"));
            break;
        }
        visited[i as usize] = true;
        let (p, l, r, red) = nodes[i as usize];
        if p != parent {
            broken = Some(format!("slot {i}: parent link {p}, reached from {parent}"));
            break;
        }
        let _ = write!(s, "{} {} {} ", if red { "R" } else { "B" }, i, ent(i));
        stack.push((r, i));
        stack.push((l, i));
    }
    if let Some(b) = broken {
        return format!("BROKEN {b}");
    }
    let _ = write!(s, "| {} {}", n, ucap);
    // free list, top of the stack first; ascending runs are written a..b
    let top_first: Vec<u32> = unused.iter().rev().copied().collect();
    let mut i = 0;
    while i < top_first.len() {
        let a = top_first[i];
        let mut j = i;
        while j + 1 < top_first.len() && top_first[j + 1] == top_first[j].wrapping_add(1) {
            j += 1;
        }
        if j >= i + 2 {
            let _ = write!(s, " {}..{}", a, top_first[j]);
        } else {
            for u in &top_first[i..=j] {
                let _ = write!(s, " {u}");
            }
        }
        i = j + 1;
    }
    // the raw arena (every slot: sentinel, linked, freed, never used), for the arena-level model:
    // root, then parent left right colour entity per slot
    if n <= RAW_ARENA_MAX {
        let _ = write!(s, " # {}", root);
        for (i, (p, l, r, red)) in nodes.iter().enumerate() {
            let _ = write!(s, " ; {} {} {} {} {}", p, l, r, if *red { "R" } else { "B" }, ent(i as u32));
        }
    }
    s
}

/// Arenas of at most this many slots are dumped raw beside the abstracted tree.
const RAW_ARENA_MAX: u32 = 48;

fn h(handle: u32) -> String {
    if handle == EMPTY_REF {
        "h-".into()
    } else {
        format!("h{handle}")
    }
}

// ------------------------------------------------------------------------------------------ map

trait Snapshot {
    fn snap(&self) -> String;
}

impl Snapshot for MapTree<MKey, Box<i64>> {
    fn snap(&self) -> String {
        tree_snapshot(self.verif_snapshot(), &|i| {
            let (k, v) = self.verif_entity(i);
            format!("{} {}", k.0, *v)
        })
    }
}
impl Snapshot for MapList<MKey, Box<i64>> {
    fn snap(&self) -> String {
        let mut s = String::new();
        for (k, v) in self.verif_state() {
            let _ = write!(s, "{} {} ", k.0, *v);
        }
        s
    }
}
impl Snapshot for SetTree<MKey, SVal> {
    fn snap(&self) -> String {
        tree_snapshot(self.verif_snapshot(), &|i| {
            let v = self.verif_entity(i);
            format!("{} {}", v.key.0, v.payload)
        })
    }
}
impl Snapshot for SetList<SVal> {
    fn snap(&self) -> String {
        let mut s = String::new();
        for v in self.verif_state() {
            let _ = write!(s, "{} {} ", v.key.0, v.payload);
        }
        s
    }
}

fn exec_map<C: MapCollection<MKey, Box<i64>>>(c: &mut C, held: &mut Vec<u32>, op: &MOp) -> String {
    let hv = |c: &C, i: u32| -> String {
        if i == EMPTY_REF {
            h(i)
        } else {
            format!("{} {}", h(i), **c.value_by_index(i))
        }
    };
    match op {
        MOp::Ins(k, v) => {
            c.insert(MKey(*k), Box::new(*v));
            String::new()
        }
        MOp::Del(k) => {
            held.clear();
            c.delete(MKey(*k));
            String::new()
        }
        MOp::Get(k) => match c.get_value(MKey(*k)) {
            None => "none".into(),
            Some(v) => format!("{}", **v),
        },
        MOp::IsEmpty => (c.is_empty() as u8).to_string(),
        MOp::First(k) => {
            let i = c.first_index_less(MKey(*k));
            hv(c, i)
        }
        MOp::FirstBy(k) => {
            let p = MKey(*k);
            let i = c.first_index_less_by(|x| x.cmp(&p));
            hv(c, i)
        }
        MOp::FirstTh(k) => {
            let i = c.first_index_less_by(|x| {
                callback();
                if x.0 < *k {
                    Ordering::Less
                } else {
                    Ordering::Greater
                }
            });
            hv(c, i)
        }
        MOp::Write(k, v) => {
            let i = c.first_index_less(MKey(*k));
            if i != EMPTY_REF {
                *c.value_by_index_mut(i) = Box::new(*v);
            }
            h(i)
        }
        MOp::DelIdx(k) => {
            held.clear();
            let i = c.first_index_less(MKey(*k));
            if i != EMPTY_REF {
                c.delete_by_index(i);
            }
            h(i)
        }
        MOp::Clear => {
            held.clear();
            c.clear();
            String::new()
        }
        MOp::Hold(k) => {
            let i = c.first_index_less(MKey(*k));
            if i != EMPTY_REF {
                held.push(i);
            }
            hv(c, i)
        }
        MOp::Chk => {
            let mut s = String::new();
            for &i in held.iter() {
                let _ = write!(s, "{} ", **c.value_by_index(i));
            }
            s
        }
        MOp::After(_) | MOp::Before(_) | MOp::WalkF(_) | MOp::WalkB(_) => {
            panic!("neighbour steps are not part of the map interface")
        }
    }
}

// ------------------------------------------------------------------------------------------ set

fn sv(v: &SVal) -> String {
    format!("{}:{}", v.key.0, v.payload)
}

fn exec_set<C: SetCollection<MKey, SVal>>(c: &mut C, held: &mut Vec<u32>, op: &MOp, bound: usize) -> String {
    let hv = |c: &C, i: u32| -> String {
        if i == EMPTY_REF {
            h(i)
        } else {
            format!("{} {}", h(i), sv(c.value_by_index(i)))
        }
    };
    match op {
        MOp::Ins(k, v) => {
            c.insert(SVal { key: MKey(*k), payload: v.to_string() });
            String::new()
        }
        MOp::Del(k) => {
            held.clear();
            c.delete(&MKey(*k));
            String::new()
        }
        MOp::Get(k) => match c.get_value(&MKey(*k)) {
            None => "none".into(),
            Some(v) => sv(v),
        },
        MOp::IsEmpty => (c.is_empty() as u8).to_string(),
        MOp::First(k) => {
            let i = c.first_index_less(&MKey(*k));
            hv(c, i)
        }
        MOp::FirstBy(k) => {
            let p = MKey(*k);
            let i = c.first_index_less_by(|x| x.cmp(&p));
            hv(c, i)
        }
        MOp::FirstTh(k) => {
            let i = c.first_index_less_by(|x| {
                callback();
                if x.0 < *k {
                    Ordering::Less
                } else {
                    Ordering::Greater
                }
            });
            hv(c, i)
        }
        MOp::Write(k, v) => {
            let i = c.first_index_less(&MKey(*k));
            if i != EMPTY_REF {
                c.value_by_index_mut(i).payload = v.to_string();
            }
            h(i)
        }
        MOp::DelIdx(k) => {
            held.clear();
            let i = c.first_index_less(&MKey(*k));
            if i != EMPTY_REF {
                c.delete_by_index(i);
            }
            h(i)
        }
        MOp::Clear => {
            held.clear();
            c.clear();
            String::new()
        }
        MOp::After(k) => {
            let i = c.first_index_less(&MKey(*k));
            if i == EMPTY_REF {
                h(i)
            } else {
                let j = c.index_after(i);
                format!("{} {}", h(i), hv(c, j))
            }
        }
        MOp::Before(k) => {
            let i = c.first_index_less(&MKey(*k));
            if i == EMPTY_REF {
                h(i)
            } else {
                let j = c.index_before(i);
                format!("{} {}", h(i), hv(c, j))
            }
        }
        MOp::WalkF(k) | MOp::WalkB(k) => {
            // walk from the handle of the greatest key <= k to the end; more than `bound` steps
            // means the walk does not terminate
            let fwd = matches!(op, MOp::WalkF(_));
            let mut i = c.first_index_less(&MKey(*k));
            let mut s = String::new();
            let mut steps = 0usize;
            while i != EMPTY_REF {
                if steps > bound {
                    s.push_str("!NONTERMINATING");
                    break;
                }
                let _ = write!(s, "{} ", sv(c.value_by_index(i)));
                i = if fwd { c.index_after(i) } else { c.index_before(i) };
                steps += 1;
            }
            s
        }
        MOp::Hold(k) => {
            let i = c.first_index_less(&MKey(*k));
            if i != EMPTY_REF {
                held.push(i);
            }
            hv(c, i)
        }
        MOp::Chk => {
            let mut s = String::new();
            for &i in held.iter() {
                let _ = write!(s, "{} ", sv(c.value_by_index(i)));
            }
            s
        }
    }
}

// ------------------------------------------------------------------------------------------ key

trait KeyColl: KeyExpCollection<KKey, i32, i64> {
    fn snap(&self) -> String;
    /// exported values and the capacity of the returned vector (on an independent copy)
    fn export(&self, time: i32) -> (Vec<i64>, usize);
}

impl KeyColl for KeyExpTree<KKey, i32, i64> {
    fn snap(&self) -> String {
        tree_snapshot(self.verif_snapshot(), &|i| {
            let (k, v) = self.verif_entity(i);
            format!("{} {} {}", k.k, k.exp, v)
        })
    }
    fn export(&self, time: i32) -> (Vec<i64>, usize) {
        let v = self.verif_clone().into_ordered_vec(time);
        let c = v.capacity();
        (v, c)
    }
}

impl KeyColl for KeyExpList<KKey, i32, i64> {
    fn snap(&self) -> String {
        let (buf, min_exp) = self.verif_state();
        let mut s = String::new();
        for (k, v) in buf {
            let _ = write!(s, "{} {} {} ", k.k, k.exp, v);
        }
        let _ = write!(s, "| {min_exp}");
        s
    }
    fn export(&self, time: i32) -> (Vec<i64>, usize) {
        let v = self.verif_clone().into_ordered_vec(time);
        let c = v.capacity();
        (v, c)
    }
}

const DEFAULT_VAL: i64 = -1;

fn val(v: i64) -> String {
    if v == DEFAULT_VAL {
        "none".into()
    } else {
        v.to_string()
    }
}

fn exec_key<C: KeyColl>(c: &mut C, next_id: &mut u32, op: &KOp) -> String {
    let probe = |k: i32| KKey { k, exp: i32::MIN, id: PROBE_ID };
    match op {
        KOp::Ins { k, e, v, t } => {
            *next_id += 1;
            CURRENT_ID.with(|c| c.set(*next_id));
            c.insert(KKey { k: *k, exp: *e, id: *next_id }, *v, *t);
            CURRENT_ID.with(|c| c.set(PROBE_ID));
            String::new()
        }
        KOp::Less(t, k) => val(c.first_less(*t, DEFAULT_VAL, probe(*k))),
        KOp::LessEq(t, k) => val(c.first_less_or_equal(*t, DEFAULT_VAL, probe(*k))),
        KOp::By(t, k) => {
            let k = *k;
            val(c.first_less_or_equal_by(*t, DEFAULT_VAL, |x| {
                note_closure_arg(&x);
                x.k.cmp(&k)
            }))
        }
        KOp::Th(t, k) => {
            let k = *k;
            val(c.first_less_or_equal_by(*t, DEFAULT_VAL, |x| {
                note_closure_arg(&x);
                if x.k <= k {
                    Ordering::Less
                } else {
                    Ordering::Greater
                }
            }))
        }
        KOp::Get(t, k) => match c.get_value(*t, probe(*k)) {
            None => "none".into(),
            Some(v) => v.to_string(),
        },
        KOp::IsEmpty => (c.is_empty() as u8).to_string(),
        KOp::Clear => {
            c.clear();
            String::new()
        }
        KOp::Export(t) => {
            let (v, cap) = c.export(*t);
            let mut s = format!("cap{cap}");
            for x in v {
                let _ = write!(s, " {x}");
            }
            s
        }
    }
}

// ------------------------------------------------------------------------------------------ seg

fn seg_snap(t: &SegExpTree<i64, i32, SegVal>) -> String {
    let (min, max, scale) = t.verif_layout();
    let st = t.verif_state();
    let mut s = format!("L {min} {max} {scale} {} ", st.len());
    for (i, c) in st.iter().enumerate() {
        if !c.is_empty() {
            let _ = write!(s, "{i}:");
            for (j, (v, m)) in c.iter().enumerate() {
                let _ = write!(s, "{}{}/{}/{:x}", if j > 0 { "," } else { "" }, v.id, v.exp, m);
            }
            s.push(' ');
        }
    }
    s
}

fn exec_seg(t: &mut SegExpTree<i64, i32, SegVal>, op: &SOp) -> String {
    match op {
        SOp::Ins { a, b, id, e } => {
            t.insert_by_range(SegRange { min: *a, max: *b }, SegVal { id: *id, exp: *e });
            String::new()
        }
        SOp::Query { a, b, t: time, n } => {
            let mut s = String::new();
            let mut it = t.iter_by_range(SegRange { min: *a, max: *b }, *time);
            // the iterator is consumed the way callers do: an explicit next() loop, a for loop, or the
            // adaptors that go through fold / try_fold (for_each, fold, collect, take + for_each);
            // the style is a function of the query, the answer must not depend on it
            let style = ((*a as i128 * 31 + *b as i128 * 17 + *time as i128) .rem_euclid(5)) as u8;
            if *n < 0 {
                match style {
                    0 => {
                        while let Some(v) = it.next() {
                            let _ = write!(s, "{} ", v.id);
                        }
                    }
                    1 => {
                        for v in it {
                            let _ = write!(s, "{} ", v.id);
                        }
                    }
                    2 => it.for_each(|v| {
                        let _ = write!(s, "{} ", v.id);
                    }),
                    3 => {
                        s = it.fold(String::new(), |mut acc, v| {
                            let _ = write!(acc, "{} ", v.id);
                            acc
                        })
                    }
                    _ => {
                        let all: Vec<_> = it.map(|v| v.id).collect();
                        for id in all {
                            let _ = write!(s, "{} ", id);
                        }
                    }
                }
            } else if style % 2 == 0 {
                let mut taken = 0i64;
                while taken < *n {
                    match it.next() {
                        None => break,
                        Some(v) => {
                            let _ = write!(s, "{} ", v.id);
                            taken += 1;
                        }
                    }
                }
            } else {
                it.by_ref().take(*n as usize).for_each(|v| {
                    let _ = write!(s, "{} ", v.id);
                });
            }
            s
        }
        SOp::Clear => {
            t.clear();
            String::new()
        }
    }
}

// ------------------------------------------------------------------------------------------ driver

enum Inst {
    MapTree(MapTree<MKey, Box<i64>>),
    MapList(MapList<MKey, Box<i64>>),
    SetTree(SetTree<MKey, SVal>),
    SetList(SetList<SVal>),
    KeyTree(KeyExpTree<KKey, i32, i64>),
    KeyList(KeyExpList<KKey, i32, i64>),
    Seg(Option<SegExpTree<i64, i32, SegVal>>),
}

impl Inst {
    fn snap(&self) -> String {
        match self {
            Inst::MapTree(c) => c.snap(),
            Inst::MapList(c) => c.snap(),
            Inst::SetTree(c) => c.snap(),
            Inst::SetList(c) => c.snap(),
            Inst::KeyTree(c) => KeyColl::snap(c),
            Inst::KeyList(c) => KeyColl::snap(c),
            Inst::Seg(Some(t)) => seg_snap(t),
            Inst::Seg(None) => "NOTREE".into(),
        }
    }
}

fn fmt_seen(seen: &[(i32, i32)]) -> String {
    let mut s = String::new();
    for (k, e) in seen {
        let _ = write!(s, "{k}:{e} ");
    }
    s
}

/// runs a history without keeping the trace: (snapshot after the last operation, user callbacks made)
pub fn run_silent(hist: &History) -> (String, u64) {
    let mut buf: Vec<u8> = Vec::new();
    let saved = std::env::var("ITV_SNAP_EVERY").ok();
    // only the last snapshot is needed
    std::env::set_var("ITV_SNAP_EVERY", "1000000000");
    run_history(&mut buf, 0, hist);
    match saved {
        Some(v) => std::env::set_var("ITV_SNAP_EVERY", v),
        None => std::env::remove_var("ITV_SNAP_EVERY"),
    }
    let calls = CALLS.with(|c| c.get());
    let text = String::from_utf8_lossy(&buf);
    let last = text.lines().last().unwrap_or("");
    let snap = match last.find("## ") {
        Some(p) => last[p + 3..].to_string(),
        None => String::new(),
    };
    (snap, calls)
}

/// runs a history without keeping the trace and returns the answer of its LAST operation
pub fn run_answers(hist: &History) -> (String, u64) {
    let mut buf: Vec<u8> = Vec::new();
    let saved = std::env::var("ITV_SNAP_EVERY").ok();
    std::env::set_var("ITV_SNAP_EVERY", "1000000000");
    run_history(&mut buf, 0, hist);
    match saved {
        Some(v) => std::env::set_var("ITV_SNAP_EVERY", v),
        None => std::env::remove_var("ITV_SNAP_EVERY"),
    }
    let calls = CALLS.with(|c| c.get());
    let text = String::from_utf8_lossy(&buf);
    let last = text.lines().last().unwrap_or("");
    let ans = match (last.find(" => "), last.find(" @")) {
        (Some(a), Some(b)) if b > a => last[a + 4..b].to_string(),
        _ => String::new(),
    };
    (ans, calls)
}

pub fn run_history<W: Write>(out: &mut W, index: usize, hist: &History) {
    let mut head = format!("H {} {}", hist.coll.name(), index);
    for p in &hist.params {
        let _ = write!(head, " {p}");
    }
    if let Some((t, o)) = hist.twin {
        let _ = write!(head, " twin {t} {o}");
    }
    if let Some(k) = hist.inject {
        let _ = write!(head, " inject {k}");
    }
    writeln!(out, "{head}").unwrap();
    out.flush().unwrap();
    reset_calls(hist.inject);

    let cap = hist.params.first().copied().unwrap_or(0) as usize;
    let created = catch_unwind(AssertUnwindSafe(|| match hist.coll {
        Coll::MapTree => Inst::MapTree(MapTree::new(cap)),
        Coll::MapList => Inst::MapList(MapList::new(cap)),
        Coll::SetTree => Inst::SetTree(SetTree::new(cap)),
        Coll::SetList => Inst::SetList(SetList::new(cap)),
        Coll::KeyTree => Inst::KeyTree(KeyExpTree::new(cap)),
        Coll::KeyList => Inst::KeyList(KeyExpList::new(cap)),
        Coll::Seg => Inst::Seg(SegExpTree::new(SegRange { min: hist.params[0], max: hist.params[1] })),
    }));
    let mut inst = match created {
        Ok(i) => i,
        Err(_) => {
            writeln!(out, "N => !PANIC ## NONE").unwrap();
            return;
        }
    };
    writeln!(out, "N => {} ## {}", if matches!(inst, Inst::Seg(None)) { "none" } else { "ok" }, inst.snap()).unwrap();

    let mut held: Vec<u32> = Vec::new();
    let mut next_id: u32 = 0;
    let bound = hist.ops.len() + 2;
    // ITV_SNAP_EVERY=k: record the state only after every k-th operation (and the last one)
    let snap_every: usize = std::env::var("ITV_SNAP_EVERY").ok().and_then(|s| s.parse().ok()).unwrap_or(1);
    // ITV_SNAP_KINDS=I,C: additionally record the state after every operation of these kinds
    let snap_kinds: Vec<String> = std::env::var("ITV_SNAP_KINDS").ok().map(|s| s.split(',').map(|x| x.to_string()).collect()).unwrap_or_default();
    let injecting = hist.inject.is_some();
    let is_mapset = matches!(hist.coll, Coll::MapTree | Coll::MapList | Coll::SetTree | Coll::SetList);
    for (op_index, op) in hist.ops.iter().enumerate() {
        let mut attempt = 0;
        loop {
            attempt += 1;
            // the state before the operation, to tell whether an injected panic left it untouched
            let before = if injecting && attempt == 1 { Some(inst.snap()) } else { None };
            write!(out, "{}", op.text()).unwrap();
            out.flush().unwrap();
            let calls_before = CALLS.with(|c| c.get());
            CURRENT_ID.with(|c| c.set(PROBE_ID));
            let _ = take_seen();
            let mut fork_snap: Option<String> = None;
            let r = catch_unwind(AssertUnwindSafe(|| match (&mut inst, op) {
                (Inst::KeyTree(c), Op::Fork(f)) => match &**f {
                    Op::K(o) => {
                        let mut c2 = c.verif_clone();
                        let a = exec_key(&mut c2, &mut next_id, o);
                        fork_snap = Some(KeyColl::snap(&c2));
                        a
                    }
                    _ => panic!("fork of a non-key operation"),
                },
                (Inst::KeyList(c), Op::Fork(f)) => match &**f {
                    Op::K(o) => {
                        let mut c2 = c.verif_clone();
                        let a = exec_key(&mut c2, &mut next_id, o);
                        fork_snap = Some(KeyColl::snap(&c2));
                        a
                    }
                    _ => panic!("fork of a non-key operation"),
                },
                (Inst::MapTree(c), Op::M(o)) => exec_map(c, &mut held, o),
                (Inst::MapList(c), Op::M(o)) => exec_map(c, &mut held, o),
                (Inst::SetTree(c), Op::M(o)) => exec_set(c, &mut held, o, bound),
                (Inst::SetList(c), Op::M(o)) => exec_set(c, &mut held, o, bound),
                (Inst::KeyTree(c), Op::K(o)) => exec_key(c, &mut next_id, o),
                (Inst::KeyList(c), Op::K(o)) => exec_key(c, &mut next_id, o),
                (Inst::Seg(Some(t)), Op::S(o)) => exec_seg(t, o),
                (Inst::Seg(None), Op::S(_)) => "notree".into(),
                _ => panic!("operation does not fit the collection"),
            }));
            let mut injected = false;
            let ans = match r {
                Ok(s) => s,
                Err(e) => {
                    let msg = if let Some(s) = e.downcast_ref::<String>() {
                        s.clone()
                    } else if let Some(s) = e.downcast_ref::<&str>() {
                        s.to_string()
                    } else {
                        "?".into()
                    };
                    if msg.starts_with("injected panic") {
                        injected = true;
                        "!INJECTED".to_string()
                    } else {
                        format!("!PANIC {}", msg.replace('\n', " ").replace("=>", "->").replace("##", "#"))
                    }
                }
            };
            let seen = take_seen();
            let calls = CALLS.with(|c| c.get()) - calls_before;
            let snap = if let Some(fs) = fork_snap {
                fs
            } else if injected
                || (op_index + 1) % snap_every == 0
                || op_index + 1 == hist.ops.len()
                || (!snap_kinds.is_empty() && snap_kinds.iter().any(|k| op.text().split(' ').next() == Some(k.as_str())))
            {
                catch_unwind(AssertUnwindSafe(|| inst.snap())).unwrap_or_else(|_| "BROKEN snapshot hook panicked".into())
            } else {
                "-".into()
            };
            let is_key = matches!(hist.coll, Coll::KeyTree | Coll::KeyList);
            if is_key {
                writeln!(out, " => {} @ {}#{} ## {}", ans.trim_end(), fmt_seen(&seen), calls, snap).unwrap();
            } else {
                writeln!(out, " => {} @ #{} ## {}", ans.trim_end(), calls, snap).unwrap();
            }
            // a map / set operation that panicked before changing anything is issued again, so that
            // the rest of the history stays inside the contract (a skipped delete followed by an
            // insert of the same key would not be)
            if injected && is_mapset && attempt == 1 && before.as_deref() == Some(snap.as_str()) {
                continue;
            }
            break;
        }
    }
}

/// Builds expiring-key trees of `n`, `n/10`, ... entries in ascending, descending and shuffled key
/// order (a third of the entries already expired at the export time) and prints, for each, the
/// capacity and length of the exported vector next to the number of physically stored entries.
pub fn big_export(n: usize) {
    let mut size = n;
    let mut rng = crate::rng::Rng::new(n as u64);
    loop {
        for order in 0..3 {
            let mut keys: Vec<i32> = (0..size as i32).collect();
            match order {
                0 => {}
                1 => keys.reverse(),
                _ => {
                    for i in (1..keys.len()).rev() {
                        let j = rng.below(i as u64 + 1) as usize;
                        keys.swap(i, j);
                    }
                }
            }
            let mut t: KeyExpTree<KKey, i32, i64> = KeyExpTree::new(8);
            for (i, k) in keys.iter().enumerate() {
                let e = if i % 3 == 0 { 5 } else { 1_000_000 };
                t.insert(KKey { k: *k, exp: e, id: i as u32 + 1 }, i as i64, 0);
            }
            let (_, nodes, unused, _) = t.verif_snapshot();
            let stored = nodes.len() - unused.len() - 1;
            for time in [0, 5] {
                let v = t.verif_clone().into_ordered_vec(time);
                println!("BIGEXPORT order={} time={} inserted={} stored={} len={} cap={}", order, time, size, stored, v.len(), v.capacity());
            }
        }
        if size < 10 {
            break;
        }
        size /= 10;
    }
    // large capacity hints with few entries; a large tree cleared and refilled beyond its old arena
    let row = |label: usize, t: &KeyExpTree<KKey, i32, i64>, inserted: usize| {
        let (_, nodes, unused, _) = t.verif_snapshot();
        let stored = nodes.len() - unused.len() - 1;
        let v = t.verif_clone().into_ordered_vec(0);
        println!("BIGEXPORT order={} time=0 inserted={} stored={} len={} cap={}", label, inserted, stored, v.len(), v.capacity());
    };
    for hint in [4096usize, 4097, 5000, 20000, 100_000] {
        let mut t: KeyExpTree<KKey, i32, i64> = KeyExpTree::new(hint);
        for k in 0..10 {
            t.insert(KKey { k, exp: 1_000_000, id: k as u32 + 1 }, k as i64, 0);
        }
        row(hint, &t, 10);
        // fill beyond the hint: several growth steps
        for k in 10..(2 * hint as i32 + 50) {
            t.insert(KKey { k, exp: 1_000_000, id: k as u32 + 1 }, k as i64, 0);
        }
        row(hint, &t, 2 * hint + 50);
    }
    for first in [4200usize, 9000] {
        let mut t: KeyExpTree<KKey, i32, i64> = KeyExpTree::new(8);
        for k in 0..first as i32 {
            t.insert(KKey { k, exp: 1_000_000, id: k as u32 + 1 }, k as i64, 0);
        }
        t.clear();
        for k in 0..5 {
            t.insert(KKey { k, exp: 1_000_000, id: k as u32 + 1 }, k as i64, 0);
        }
        row(first, &t, 5);
        for k in 5..(first as i32 * 2) {
            t.insert(KKey { k, exp: 1_000_000, id: k as u32 + 1 }, k as i64, 0);
        }
        row(first, &t, first * 2);
    }
    println!("#END");
}

/// height of the tree that a snapshot's links spell (iterative; the links were produced by the code
/// under test, so the walk is bounded by the number of slots)
fn snap_height(snap: &Snap) -> usize {
    let (root, nodes, _, _) = snap;
    let mut best = 0usize;
    let mut stack: Vec<(u32, usize)> = vec![(*root, 1)];
    let mut visited = 0usize;
    while let Some((i, d)) = stack.pop() {
        if i == EMPTY_REF || (i as usize) >= nodes.len() || visited > nodes.len() {
            continue;
        }
        visited += 1;
        best = best.max(d);
        let (_, l, r, _) = nodes[i as usize];
        stack.push((l, d + 1));
        stack.push((r, d + 1));
    }
    best
}

fn deep_row(coll: &str, opk: &str, order: &str, n: usize, fails: usize, first: &str) {
    println!("DEEP coll={coll} opk={opk} order={order} n={n} fails={fails} first={}", first.replace(' ', "_"));
}

/// Trees far deeper than any history the model runner replays: `n` keys inserted in ascending and in
/// descending order (the orders that make a red-black tree as high as it gets), then EVERY key looked
/// up, every predecessor handle taken, complete successor / predecessor walks, and the height compared
/// with 2*log2(n+1)+1.  The reference answers are immediate (the keys are 0..n), so each row is the
/// property's own predicate evaluated on the implementation.
pub fn deep(n: usize, which: &str) {
    let height_bound = |n: usize| 2 * ((n + 1) as f64).log2().floor() as usize + 1;
    for order in ["asc", "desc"] {
        let keys: Vec<i32> = if order == "asc" { (0..n as i32).collect() } else { (0..n as i32).rev().collect() };
        if which.contains("maptree") {
            let mut t: MapTree<MKey, Box<i64>> = MapTree::new(8);
            for k in &keys {
                t.insert(MKey(*k), Box::new(*k as i64 + 1));
            }
            let (mut f, mut first) = (0usize, String::new());
            for k in 0..n as i32 {
                let got = t.get_value(MKey(k)).map(|v| **v);
                if got != Some(k as i64 + 1) {
                    f += 1;
                    if first.is_empty() {
                        first = format!("get_value({k}) = {got:?}");
                    }
                }
            }
            deep_row("maptree", "G", order, n, f, &first);
            let (mut f, mut first) = (0usize, String::new());
            for k in 0..n as i32 {
                let i = t.first_index_less(MKey(k));
                let got = if i == EMPTY_REF { None } else { Some(**t.value_by_index(i)) };
                // first_index_less(k): handle of the greatest stored key <= k
                let want = Some(k as i64 + 1);
                if got != want {
                    f += 1;
                    if first.is_empty() {
                        first = format!("first_index_less({k}) -> {got:?}");
                    }
                }
            }
            deep_row("maptree", "F", order, n, f, &first);
            let hgt = snap_height(&t.verif_snapshot());
            deep_row("maptree", "HEIGHT", order, n, (hgt > height_bound(n)) as usize, &format!("height {hgt} bound {}", height_bound(n)));
            // remove every other key, look everything up again
            let (mut f, mut first) = (0usize, String::new());
            for k in (0..n as i32).step_by(2) {
                t.delete(MKey(k));
            }
            for k in 0..n as i32 {
                let got = t.get_value(MKey(k)).map(|v| **v);
                let want = if k % 2 == 0 { None } else { Some(k as i64 + 1) };
                if got != want {
                    f += 1;
                    if first.is_empty() {
                        first = format!("after deleting the even keys: get_value({k}) = {got:?}");
                    }
                }
            }
            deep_row("maptree", "D", order, n, f, &first);
            let r = catch_unwind(AssertUnwindSafe(|| {
                t.clear();
                let mut bad = !t.is_empty() as usize;
                for k in 0..200 {
                    t.insert(MKey(k), Box::new(k as i64 + 1));
                }
                for k in 0..200 {
                    if t.get_value(MKey(k)).map(|v| **v) != Some(k as i64 + 1) {
                        bad += 1;
                    }
                }
                bad
            }));
            deep_row("maptree", "C", order, n, r.unwrap_or(1), "clear of the deep tree, 200 insertions, lookups");
        }
        if which.contains("settree") {
            let mut t: SetTree<MKey, SVal> = SetTree::new(8);
            for k in &keys {
                t.insert(SVal { key: MKey(*k), payload: k.to_string() });
            }
            let (mut f, mut first) = (0usize, String::new());
            for k in 0..n as i32 {
                let ok = t.get_value(&MKey(k)).map_or(false, |v| v.key.0 == k);
                if !ok {
                    f += 1;
                    if first.is_empty() {
                        first = format!("get_value({k}) misses");
                    }
                }
            }
            deep_row("settree", "G", order, n, f, &first);
            // successor walk from the smallest, predecessor walk from the greatest value
            for fwd in [true, false] {
                let start = if fwd { t.first_index_less_by(|x| if x.0 <= 0 { Ordering::Less } else { Ordering::Greater }) } else { t.first_index_less(&MKey(n as i32 + 5)) };
                let mut i = start;
                let mut expect: i64 = if fwd { 0 } else { n as i64 - 1 };
                let (mut f, mut first) = (0usize, String::new());
                let mut steps = 0usize;
                while i != EMPTY_REF {
                    if steps > n + 2 {
                        f += 1;
                        if first.is_empty() {
                            first = "the walk does not end".into();
                        }
                        break;
                    }
                    let got = t.value_by_index(i).key.0 as i64;
                    if got != expect {
                        f += 1;
                        if first.is_empty() {
                            first = format!("step {steps}: value {got}, expected {expect}");
                        }
                        break;
                    }
                    expect += if fwd { 1 } else { -1 };
                    i = if fwd { t.index_after(i) } else { t.index_before(i) };
                    steps += 1;
                }
                if f == 0 && steps != n {
                    f = 1;
                    first = format!("walk of {steps} steps over {n} values");
                }
                deep_row("settree", if fwd { "WF" } else { "WB" }, order, n, f, &first);
            }
            let hgt = snap_height(&t.verif_snapshot());
            deep_row("settree", "HEIGHT", order, n, (hgt > height_bound(n)) as usize, &format!("height {hgt} bound {}", height_bound(n)));
            let r = catch_unwind(AssertUnwindSafe(|| {
                t.clear();
                let mut bad = !t.is_empty() as usize;
                for k in 0..200 {
                    t.insert(SVal { key: MKey(k), payload: k.to_string() });
                }
                for k in 0..200 {
                    if !t.get_value(&MKey(k)).map_or(false, |v| v.key.0 == k) {
                        bad += 1;
                    }
                }
                bad
            }));
            deep_row("settree", "C", order, n, r.unwrap_or(1), "clear of the deep tree, 200 insertions, lookups");
        }
        if which.contains("keytree") {
            let mut t: KeyExpTree<KKey, i32, i64> = KeyExpTree::new(8);
            for (i, k) in keys.iter().enumerate() {
                t.insert(KKey { k: *k, exp: 1_000_000, id: i as u32 + 1 }, *k as i64 + 1, 0);
            }
            let probe = |k: i32| KKey { k, exp: i32::MIN, id: PROBE_ID };
            let (mut f, mut first) = (0usize, String::new());
            for k in 0..n as i32 {
                let got = t.get_value(0, probe(k));
                if got != Some(k as i64 + 1) {
                    f += 1;
                    if first.is_empty() {
                        first = format!("get_value({k}) = {got:?}");
                    }
                }
            }
            deep_row("keytree", "G", order, n, f, &first);
            let (mut f, mut first) = (0usize, String::new());
            for k in 0..n as i32 {
                let a = t.first_less_or_equal(0, DEFAULT_VAL, probe(k));
                let b = t.first_less(0, DEFAULT_VAL, probe(k));
                let wb = if k == 0 { DEFAULT_VAL } else { k as i64 };
                if a != k as i64 + 1 || b != wb {
                    f += 1;
                    if first.is_empty() {
                        first = format!("first_less_or_equal({k}) = {a}, first_less({k}) = {b}");
                    }
                }
            }
            deep_row("keytree", "QE", order, n, f, &first);
            let hgt = snap_height(&t.verif_snapshot());
            deep_row("keytree", "HEIGHT", order, n, (hgt > height_bound(n)) as usize, &format!("height {hgt} bound {}", height_bound(n)));
            // ordered export of the deep tree (on a copy), caught if it panics
            let exported = catch_unwind(AssertUnwindSafe(|| t.verif_clone().into_ordered_vec(0)));
            match exported {
                Ok(v) => {
                    let ok = v.len() == n && v.iter().enumerate().all(|(i, x)| *x == i as i64 + 1);
                    deep_row("keytree", "V", order, n, (!ok) as usize, &format!("export of {} values, ascending 1..n expected", v.len()));
                }
                Err(_) => deep_row("keytree", "V", order, n, 1, "into_ordered_vec panicked"),
            }
            // clear of the deep tree, then reuse
            let r = catch_unwind(AssertUnwindSafe(|| {
                t.clear();
                let mut bad = !t.is_empty() as usize;
                for k in 0..200 {
                    t.insert(KKey { k, exp: 1_000_000, id: 1_000_000 + k as u32 }, k as i64 + 1, 0);
                }
                for k in 0..200 {
                    if t.get_value(0, probe(k)) != Some(k as i64 + 1) {
                        bad += 1;
                    }
                }
                bad
            }));
            deep_row("keytree", "C", order, n, r.unwrap_or(1), "clear of the deep tree, 200 insertions, lookups");
        }
    }
    println!("#END");
}

/// slot partition of a tree snapshot: every slot 1..len-1 is either linked into the tree (exactly
/// once) or on the free list (exactly once), slot 0 (the sentinel) in neither
fn partition_defect(snap: &Snap) -> Option<String> {
    let (root, nodes, unused, _) = snap;
    let n = nodes.len();
    let mut mark = vec![0u8; n];
    let mut stack = vec![*root];
    let mut visited = 0usize;
    while let Some(i) = stack.pop() {
        if i == EMPTY_REF {
            continue;
        }
        if i as usize >= n {
            return Some(format!("link {i} beyond the buffer of {n} slots"));
        }
        if i == 0 {
            return Some("the sentinel slot 0 is linked into the tree".into());
        }
        if mark[i as usize] != 0 {
            return Some(format!("slot {i} linked twice"));
        }
        mark[i as usize] = 1;
        visited += 1;
        if visited > n {
            return Some("cycle".into());
        }
        let (_, l, r, _) = nodes[i as usize];
        stack.push(l);
        stack.push(r);
    }
    for &u in unused {
        if u as usize >= n {
            return Some(format!("free slot {u} beyond the buffer of {n} slots"));
        }
        if u == 0 {
            return Some("the sentinel slot 0 is on the free list".into());
        }
        if mark[u as usize] == 1 {
            return Some(format!("slot {u} is linked into the tree and on the free list"));
        }
        if mark[u as usize] == 2 {
            return Some(format!("slot {u} is on the free list twice"));
        }
        mark[u as usize] = 2;
    }
    for i in 1..n {
        if mark[i] == 0 {
            return Some(format!("slot {i} is neither in the tree nor on the free list (lost)"));
        }
    }
    None
}

fn cycle_row(coll: &str, opk: &str, n: usize, hint: usize, stage: &str, defect: Option<String>) {
    println!(
        "CYCLE coll={coll} opk={opk} n={n} hint={hint} stage={} fails={} first={}",
        stage.replace(' ', "_"),
        defect.is_some() as usize,
        defect.unwrap_or_default().replace(' ', "_")
    );
}

/// Fill / thin out / clear / refill cycles at sizes far beyond what the model runner replays, with
/// the slot partition checked on the implementation's own arena at every stage and every stored key
/// looked up at the end (reference answers immediate).
pub fn cycle(n: usize, which: &str) {
    for hint in [0usize, 300, n / 3 + 1, n + 7] {
        if which.contains("maptree") {
            let r = catch_unwind(AssertUnwindSafe(|| {
                let mut t: MapTree<MKey, Box<i64>> = MapTree::new(hint);
                                for k in 0..n as i32 {
                    t.insert(MKey(((k as i64 * 7919) % n as i64) as i32), Box::new(0));
                    if k as usize % (n / 16 + 1) == n / 16 {
                        if let Some(d) = partition_defect(&t.verif_snapshot()) {
                            cycle_row("maptree", "I", n, hint, "while filling", Some(d));
                            break;
                        }
                    }
                }
                cycle_row("maptree", "I", n, hint, "filled", partition_defect(&t.verif_snapshot()));
                for k in (0..n as i32).step_by(3) {
                    t.delete(MKey(k));
                }
                cycle_row("maptree", "D", n, hint, "a third deleted", partition_defect(&t.verif_snapshot()));
                for k in (0..n as i32).step_by(3) {
                    t.insert(MKey(k), Box::new(0));
                }
                cycle_row("maptree", "I", n, hint, "refilled after deletions", partition_defect(&t.verif_snapshot()));
                t.clear();
                cycle_row("maptree", "C", n, hint, "cleared", partition_defect(&t.verif_snapshot()).or(if t.is_empty() { None } else { Some("not empty after clear".into()) }));
                for k in 0..(n as i32 + n as i32 / 4) {
                    t.insert(MKey(k), Box::new(k as i64 + 1));
                }
                cycle_row("maptree", "I", n, hint, "refilled beyond the old arena", partition_defect(&t.verif_snapshot()));
                for k in (0..n as i32).step_by(2) {
                    t.delete(MKey(k));
                }
                cycle_row("maptree", "D", n, hint, "half deleted after the clear", partition_defect(&t.verif_snapshot()));
                let mut miss = None;
                for k in 0..(n as i32 + n as i32 / 4) {
                    let want = if k < n as i32 && k % 2 == 0 { None } else { Some(k as i64 + 1) };
                    if t.get_value(MKey(k)).map(|v| **v) != want && miss.is_none() {
                        miss = Some(format!("get_value({k}) wrong after the cycle"));
                    }
                }
                cycle_row("maptree", "G", n, hint, "lookups after the cycle", miss);
            }));
            if r.is_err() {
                cycle_row("maptree", "PANIC", n, hint, "panic", Some("panicked".into()));
            }
        }
        if which.contains("settree") {
            let r = catch_unwind(AssertUnwindSafe(|| {
                let mut t: SetTree<MKey, SVal> = SetTree::new(hint);
                                let sv = |k: i32| SVal { key: MKey(k), payload: String::new() };
                for k in 0..n as i32 {
                    t.insert(sv(((k as i64 * 7919) % n as i64) as i32));
                    if k as usize % (n / 16 + 1) == n / 16 {
                        if let Some(d) = partition_defect(&t.verif_snapshot()) {
                            cycle_row("settree", "I", n, hint, "while filling", Some(d));
                            break;
                        }
                    }
                }
                cycle_row("settree", "I", n, hint, "filled", partition_defect(&t.verif_snapshot()));
                for k in (0..n as i32).step_by(3) {
                    t.delete(&MKey(k));
                }
                cycle_row("settree", "D", n, hint, "a third deleted", partition_defect(&t.verif_snapshot()));
                for k in (0..n as i32).step_by(3) {
                    t.insert(sv(k));
                }
                cycle_row("settree", "I", n, hint, "refilled after deletions", partition_defect(&t.verif_snapshot()));
                t.clear();
                cycle_row("settree", "C", n, hint, "cleared", partition_defect(&t.verif_snapshot()).or(if t.is_empty() { None } else { Some("not empty after clear".into()) }));
                for k in 0..(n as i32 + n as i32 / 4) {
                    t.insert(sv(k));
                }
                cycle_row("settree", "I", n, hint, "refilled beyond the old arena", partition_defect(&t.verif_snapshot()));
                for k in (0..n as i32).step_by(2) {
                    t.delete(&MKey(k));
                }
                cycle_row("settree", "D", n, hint, "half deleted after the clear", partition_defect(&t.verif_snapshot()));
                let mut miss = None;
                for k in 0..(n as i32 + n as i32 / 4) {
                    let want = !(k < n as i32 && k % 2 == 0);
                    if t.get_value(&MKey(k)).is_some() != want && miss.is_none() {
                        miss = Some(format!("get_value({k}) wrong after the cycle"));
                    }
                }
                cycle_row("settree", "G", n, hint, "lookups after the cycle", miss);
            }));
            if r.is_err() {
                cycle_row("settree", "PANIC", n, hint, "panic", Some("panicked".into()));
            }
        }
        if which.contains("keytree") {
            let r = catch_unwind(AssertUnwindSafe(|| {
                let mut t: KeyExpTree<KKey, i32, i64> = KeyExpTree::new(hint);
                                let probe = |k: i32| KKey { k, exp: i32::MIN, id: PROBE_ID };
                // two thirds expire at 10
                for k in 0..n as i32 {
                    let kk = ((k as i64 * 7919) % n as i64) as i32;
                    let e = if kk % 3 == 0 { 1_000_000 } else { 10 };
                    t.insert(KKey { k: kk, exp: e, id: k as u32 + 1 }, kk as i64 + 1, 0);
                    if k as usize % (n / 16 + 1) == n / 16 {
                        if let Some(d) = partition_defect(&t.verif_snapshot()) {
                            cycle_row("keytree", "I", n, hint, "while filling", Some(d));
                            break;
                        }
                    }
                }
                cycle_row("keytree", "I", n, hint, "filled", partition_defect(&t.verif_snapshot()));
                // queries at time 20 purge what they meet
                for k in (0..n as i32).step_by(5) {
                    let _ = t.first_less_or_equal(20, DEFAULT_VAL, probe(k));
                }
                cycle_row("keytree", "QE", n, hint, "queried after mass expiry", partition_defect(&t.verif_snapshot()));
                let mut miss = None;
                for k in 0..n as i32 {
                    let want = if k % 3 == 0 { Some(k as i64 + 1) } else { None };
                    if t.get_value(20, probe(k)) != want && miss.is_none() {
                        miss = Some(format!("get_value({k}) at time 20 wrong"));
                    }
                }
                cycle_row("keytree", "G", n, hint, "lookups after mass expiry", miss);
                cycle_row("keytree", "G", n, hint, "arena after the lookups", partition_defect(&t.verif_snapshot()));
                t.clear();
                cycle_row("keytree", "C", n, hint, "cleared", partition_defect(&t.verif_snapshot()).or(if t.is_empty() { None } else { Some("not empty after clear".into()) }));
                for k in 0..(n as i32 + n as i32 / 4) {
                    t.insert(KKey { k, exp: 1_000_000, id: 5_000_000 + k as u32 }, k as i64 + 1, 0);
                }
                cycle_row("keytree", "I", n, hint, "refilled beyond the old arena", partition_defect(&t.verif_snapshot()));
                let mut miss = None;
                for k in 0..(n as i32 + n as i32 / 4) {
                    if t.get_value(0, probe(k)) != Some(k as i64 + 1) && miss.is_none() {
                        miss = Some(format!("get_value({k}) wrong after the cycle"));
                    }
                }
                cycle_row("keytree", "G", n, hint, "lookups after the cycle", miss);
            }));
            if r.is_err() {
                cycle_row("keytree", "PANIC", n, hint, "panic", Some("panicked".into()));
            }
        }
    }
    println!("#END");
}
