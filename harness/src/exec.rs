//! Executes histories on the real collections and writes the trace.

use crate::ops::*;
use crate::types::*;
use i_tree::key::array::IntoArray;
use i_tree::key::exp::KeyExpCollection;
use i_tree::key::list::KeyExpList;
use i_tree::key::tree::KeyExpTree;
use i_tree::map::list::MapList;
use i_tree::map::sort::MapCollection;
use i_tree::map::tree::MapTree;
use i_tree::seg::exp::{SegExpCollection, SegRange};
use i_tree::seg::tree::SegExpTree;
use i_tree::set::list::SetList;
use i_tree::set::sort::SetCollection;
use i_tree::set::tree::SetTree;
use i_tree::EMPTY_REF;
use std::cmp::Ordering;
use std::fmt::Write as FmtWrite;
use std::io::Write;
use std::panic::{catch_unwind, AssertUnwindSafe};

type Snap = (u32, Vec<(u32, u32, u32, bool)>, Vec<u32>, usize);

/// Abstracts the arena into a pre-order term, checking on the way that the links are mutually
/// consistent, in bounds, acyclic and never reach the sentinel.
fn tree_snapshot(snap: Snap, ent: &dyn Fn(u32) -> String) -> String {
    let (root, nodes, unused, ucap) = snap;
    let n = nodes.len() as u32;
    let mut s = String::new();
    let mut visited = vec![false; nodes.len()];
    // explicit stack of (index, expected parent)
    let mut stack: Vec<(u32, u32)> = vec![(root, EMPTY_REF)];
    let mut broken: Option<String> = None;
    while let Some((i, parent)) = stack.pop() {
        if i == EMPTY_REF {
            s.push_str(". ");
            continue;
        }
        if i >= n {
            broken = Some(format!("link {i} out of bounds (buffer length {n})"));
            break;
        }
        if i == 0 {
            broken = Some("sentinel slot 0 is linked into the tree".into());
            break;
        }
        if visited[i as usize] {
            broken = Some(format!("slot {i} reached twice"));
            break;
        }
        visited[i as usize] = true;
        let (p, l, r, red) = nodes[i as usize];
        if p != parent {
            broken = Some(format!("slot {i}: parent link {p}, reached from {parent}"));
            break;
        }
        let _ = write!(s, "{} {} {} ", if red { "R" } else { "B" }, i, ent(i));
        stack.push((r, i));
        stack.push((l, i));
    }
    if let Some(b) = broken {
        return format!("BROKEN {b}");
    }
    let _ = write!(s, "| {} {}", n, ucap);
    // free list, top of the stack first; ascending runs are written a..b
    let top_first: Vec<u32> = unused.iter().rev().copied().collect();
    let mut i = 0;
    while i < top_first.len() {
        let a = top_first[i];
        let mut j = i;
        while j + 1 < top_first.len() && top_first[j + 1] == top_first[j].wrapping_add(1) {
            j += 1;
        }
        if j >= i + 2 {
            let _ = write!(s, " {}..{}", a, top_first[j]);
        } else {
            for u in &top_first[i..=j] {
                let _ = write!(s, " {u}");
            }
        }
        i = j + 1;
    }
    s
}

fn h(handle: u32) -> String {
    if handle == EMPTY_REF {
        "h-".into()
    } else {
        format!("h{handle}")
    }
}

// ------------------------------------------------------------------------------------------ map

trait Snapshot {
    fn snap(&self) -> String;
}

impl Snapshot for MapTree<MKey, Box<i64>> {
    fn snap(&self) -> String {
        tree_snapshot(self.verif_snapshot(), &|i| {
            let (k, v) = self.verif_entity(i);
            format!("{} {}", k.0, *v)
        })
    }
}
impl Snapshot for MapList<MKey, Box<i64>> {
    fn snap(&self) -> String {
        let mut s = String::new();
        for (k, v) in self.verif_state() {
            let _ = write!(s, "{} {} ", k.0, *v);
        }
        s
    }
}
impl Snapshot for SetTree<MKey, SVal> {
    fn snap(&self) -> String {
        tree_snapshot(self.verif_snapshot(), &|i| {
            let v = self.verif_entity(i);
            format!("{} {}", v.key.0, v.payload)
        })
    }
}
impl Snapshot for SetList<SVal> {
    fn snap(&self) -> String {
        let mut s = String::new();
        for v in self.verif_state() {
            let _ = write!(s, "{} {} ", v.key.0, v.payload);
        }
        s
    }
}

fn exec_map<C: MapCollection<MKey, Box<i64>>>(c: &mut C, held: &mut Vec<u32>, op: &MOp) -> String {
    let hv = |c: &C, i: u32| -> String {
        if i == EMPTY_REF {
            h(i)
        } else {
            format!("{} {}", h(i), **c.value_by_index(i))
        }
    };
    match op {
        MOp::Ins(k, v) => {
            c.insert(MKey(*k), Box::new(*v));
            String::new()
        }
        MOp::Del(k) => {
            held.clear();
            c.delete(MKey(*k));
            String::new()
        }
        MOp::Get(k) => match c.get_value(MKey(*k)) {
            None => "none".into(),
            Some(v) => format!("{}", **v),
        },
        MOp::IsEmpty => (c.is_empty() as u8).to_string(),
        MOp::First(k) => {
            let i = c.first_index_less(MKey(*k));
            hv(c, i)
        }
        MOp::FirstBy(k) => {
            let p = MKey(*k);
            let i = c.first_index_less_by(|x| x.cmp(&p));
            hv(c, i)
        }
        MOp::FirstTh(k) => {
            let i = c.first_index_less_by(|x| {
                callback();
                if x.0 < *k {
                    Ordering::Less
                } else {
                    Ordering::Greater
                }
            });
            hv(c, i)
        }
        MOp::Write(k, v) => {
            let i = c.first_index_less(MKey(*k));
            if i != EMPTY_REF {
                *c.value_by_index_mut(i) = Box::new(*v);
            }
            h(i)
        }
        MOp::DelIdx(k) => {
            held.clear();
            let i = c.first_index_less(MKey(*k));
            if i != EMPTY_REF {
                c.delete_by_index(i);
            }
            h(i)
        }
        MOp::Clear => {
            held.clear();
            c.clear();
            String::new()
        }
        MOp::Hold(k) => {
            let i = c.first_index_less(MKey(*k));
            if i != EMPTY_REF {
                held.push(i);
            }
            hv(c, i)
        }
        MOp::Chk => {
            let mut s = String::new();
            for &i in held.iter() {
                let _ = write!(s, "{} ", **c.value_by_index(i));
            }
            s
        }
        MOp::After(_) | MOp::Before(_) | MOp::WalkF(_) | MOp::WalkB(_) => {
            panic!("neighbour steps are not part of the map interface")
        }
    }
}

// ------------------------------------------------------------------------------------------ set

fn sv(v: &SVal) -> String {
    format!("{}:{}", v.key.0, v.payload)
}

fn exec_set<C: SetCollection<MKey, SVal>>(c: &mut C, held: &mut Vec<u32>, op: &MOp, bound: usize) -> String {
    let hv = |c: &C, i: u32| -> String {
        if i == EMPTY_REF {
            h(i)
        } else {
            format!("{} {}", h(i), sv(c.value_by_index(i)))
        }
    };
    match op {
        MOp::Ins(k, v) => {
            c.insert(SVal { key: MKey(*k), payload: v.to_string() });
            String::new()
        }
        MOp::Del(k) => {
            held.clear();
            c.delete(&MKey(*k));
            String::new()
        }
        MOp::Get(k) => match c.get_value(&MKey(*k)) {
            None => "none".into(),
            Some(v) => sv(v),
        },
        MOp::IsEmpty => (c.is_empty() as u8).to_string(),
        MOp::First(k) => {
            let i = c.first_index_less(&MKey(*k));
            hv(c, i)
        }
        MOp::FirstBy(k) => {
            let p = MKey(*k);
            let i = c.first_index_less_by(|x| x.cmp(&p));
            hv(c, i)
        }
        MOp::FirstTh(k) => {
            let i = c.first_index_less_by(|x| {
                callback();
                if x.0 < *k {
                    Ordering::Less
                } else {
                    Ordering::Greater
                }
            });
            hv(c, i)
        }
        MOp::Write(k, v) => {
            let i = c.first_index_less(&MKey(*k));
            if i != EMPTY_REF {
                c.value_by_index_mut(i).payload = v.to_string();
            }
            h(i)
        }
        MOp::DelIdx(k) => {
            held.clear();
            let i = c.first_index_less(&MKey(*k));
            if i != EMPTY_REF {
                c.delete_by_index(i);
            }
            h(i)
        }
        MOp::Clear => {
            held.clear();
            c.clear();
            String::new()
        }
        MOp::After(k) => {
            let i = c.first_index_less(&MKey(*k));
            if i == EMPTY_REF {
                h(i)
            } else {
                let j = c.index_after(i);
                format!("{} {}", h(i), hv(c, j))
            }
        }
        MOp::Before(k) => {
            let i = c.first_index_less(&MKey(*k));
            if i == EMPTY_REF {
                h(i)
            } else {
                let j = c.index_before(i);
                format!("{} {}", h(i), hv(c, j))
            }
        }
        MOp::WalkF(k) | MOp::WalkB(k) => {
            // walk from the handle of the greatest key <= k to the end; more than `bound` steps
            // means the walk does not terminate
            let fwd = matches!(op, MOp::WalkF(_));
            let mut i = c.first_index_less(&MKey(*k));
            let mut s = String::new();
            let mut steps = 0usize;
            while i != EMPTY_REF {
                if steps > bound {
                    s.push_str("!NONTERMINATING");
                    break;
                }
                let _ = write!(s, "{} ", sv(c.value_by_index(i)));
                i = if fwd { c.index_after(i) } else { c.index_before(i) };
                steps += 1;
            }
            s
        }
        MOp::Hold(k) => {
            let i = c.first_index_less(&MKey(*k));
            if i != EMPTY_REF {
                held.push(i);
            }
            hv(c, i)
        }
        MOp::Chk => {
            let mut s = String::new();
            for &i in held.iter() {
                let _ = write!(s, "{} ", sv(c.value_by_index(i)));
            }
            s
        }
    }
}

// ------------------------------------------------------------------------------------------ key

trait KeyColl: KeyExpCollection<KKey, i32, i64> {
    fn snap(&self) -> String;
    /// exported values and the capacity of the returned vector (on an independent copy)
    fn export(&self, time: i32) -> (Vec<i64>, usize);
}

impl KeyColl for KeyExpTree<KKey, i32, i64> {
    fn snap(&self) -> String {
        tree_snapshot(self.verif_snapshot(), &|i| {
            let (k, v) = self.verif_entity(i);
            format!("{} {} {}", k.k, k.exp, v)
        })
    }
    fn export(&self, time: i32) -> (Vec<i64>, usize) {
        let v = self.verif_clone().into_ordered_vec(time);
        let c = v.capacity();
        (v, c)
    }
}

impl KeyColl for KeyExpList<KKey, i32, i64> {
    fn snap(&self) -> String {
        let (buf, min_exp) = self.verif_state();
        let mut s = String::new();
        for (k, v) in buf {
            let _ = write!(s, "{} {} {} ", k.k, k.exp, v);
        }
        let _ = write!(s, "| {min_exp}");
        s
    }
    fn export(&self, time: i32) -> (Vec<i64>, usize) {
        let v = self.verif_clone().into_ordered_vec(time);
        let c = v.capacity();
        (v, c)
    }
}

const DEFAULT_VAL: i64 = -1;

fn val(v: i64) -> String {
    if v == DEFAULT_VAL {
        "none".into()
    } else {
        v.to_string()
    }
}

fn exec_key<C: KeyColl>(c: &mut C, next_id: &mut u32, op: &KOp) -> String {
    let probe = |k: i32| KKey { k, exp: i32::MIN, id: PROBE_ID };
    match op {
        KOp::Ins { k, e, v, t } => {
            *next_id += 1;
            CURRENT_ID.with(|c| c.set(*next_id));
            c.insert(KKey { k: *k, exp: *e, id: *next_id }, *v, *t);
            CURRENT_ID.with(|c| c.set(PROBE_ID));
            String::new()
        }
        KOp::Less(t, k) => val(c.first_less(*t, DEFAULT_VAL, probe(*k))),
        KOp::LessEq(t, k) => val(c.first_less_or_equal(*t, DEFAULT_VAL, probe(*k))),
        KOp::By(t, k) => {
            let k = *k;
            val(c.first_less_or_equal_by(*t, DEFAULT_VAL, |x| {
                note_closure_arg(&x);
                x.k.cmp(&k)
            }))
        }
        KOp::Th(t, k) => {
            let k = *k;
            val(c.first_less_or_equal_by(*t, DEFAULT_VAL, |x| {
                note_closure_arg(&x);
                if x.k <= k {
                    Ordering::Less
                } else {
                    Ordering::Greater
                }
            }))
        }
        KOp::Get(t, k) => match c.get_value(*t, probe(*k)) {
            None => "none".into(),
            Some(v) => v.to_string(),
        },
        KOp::IsEmpty => (c.is_empty() as u8).to_string(),
        KOp::Clear => {
            c.clear();
            String::new()
        }
        KOp::Export(t) => {
            let (v, cap) = c.export(*t);
            let mut s = format!("cap{cap}");
            for x in v {
                let _ = write!(s, " {x}");
            }
            s
        }
    }
}

// ------------------------------------------------------------------------------------------ seg

fn seg_snap(t: &SegExpTree<i64, i32, SegVal>) -> String {
    let (min, max, scale) = t.verif_layout();
    let st = t.verif_state();
    let mut s = format!("L {min} {max} {scale} {} ", st.len());
    for (i, c) in st.iter().enumerate() {
        if !c.is_empty() {
            let _ = write!(s, "{i}:");
            for (j, (v, m)) in c.iter().enumerate() {
                let _ = write!(s, "{}{}/{}/{:x}", if j > 0 { "," } else { "" }, v.id, v.exp, m);
            }
            s.push(' ');
        }
    }
    s
}

fn exec_seg(t: &mut SegExpTree<i64, i32, SegVal>, op: &SOp) -> String {
    match op {
        SOp::Ins { a, b, id, e } => {
            t.insert_by_range(SegRange { min: *a, max: *b }, SegVal { id: *id, exp: *e });
            String::new()
        }
        SOp::Query { a, b, t: time, n } => {
            let mut s = String::new();
            let mut it = t.iter_by_range(SegRange { min: *a, max: *b }, *time);
            let mut taken = 0i64;
            while *n < 0 || taken < *n {
                match it.next() {
                    None => break,
                    Some(v) => {
                        let _ = write!(s, "{} ", v.id);
                        taken += 1;
                    }
                }
            }
            s
        }
        SOp::Clear => {
            t.clear();
            String::new()
        }
    }
}

// ------------------------------------------------------------------------------------------ driver

enum Inst {
    MapTree(MapTree<MKey, Box<i64>>),
    MapList(MapList<MKey, Box<i64>>),
    SetTree(SetTree<MKey, SVal>),
    SetList(SetList<SVal>),
    KeyTree(KeyExpTree<KKey, i32, i64>),
    KeyList(KeyExpList<KKey, i32, i64>),
    Seg(Option<SegExpTree<i64, i32, SegVal>>),
}

impl Inst {
    fn snap(&self) -> String {
        match self {
            Inst::MapTree(c) => c.snap(),
            Inst::MapList(c) => c.snap(),
            Inst::SetTree(c) => c.snap(),
            Inst::SetList(c) => c.snap(),
            Inst::KeyTree(c) => KeyColl::snap(c),
            Inst::KeyList(c) => KeyColl::snap(c),
            Inst::Seg(Some(t)) => seg_snap(t),
            Inst::Seg(None) => "NOTREE".into(),
        }
    }
}

fn fmt_seen(seen: &[(i32, i32)]) -> String {
    let mut s = String::new();
    for (k, e) in seen {
        let _ = write!(s, "{k}:{e} ");
    }
    s
}

/// runs a history without keeping the trace: (snapshot after the last operation, user callbacks made)
pub fn run_silent(hist: &History) -> (String, u64) {
    let mut buf: Vec<u8> = Vec::new();
    let saved = std::env::var("ITV_SNAP_EVERY").ok();
    // only the last snapshot is needed
    std::env::set_var("ITV_SNAP_EVERY", "1000000000");
    run_history(&mut buf, 0, hist);
    match saved {
        Some(v) => std::env::set_var("ITV_SNAP_EVERY", v),
        None => std::env::remove_var("ITV_SNAP_EVERY"),
    }
    let calls = CALLS.with(|c| c.get());
    let text = String::from_utf8_lossy(&buf);
    let last = text.lines().last().unwrap_or("");
    let snap = match last.find("## ") {
        Some(p) => last[p + 3..].to_string(),
        None => String::new(),
    };
    (snap, calls)
}

pub fn run_history<W: Write>(out: &mut W, index: usize, hist: &History) {
    let mut head = format!("H {} {}", hist.coll.name(), index);
    for p in &hist.params {
        let _ = write!(head, " {p}");
    }
    if let Some((t, o)) = hist.twin {
        let _ = write!(head, " twin {t} {o}");
    }
    if let Some(k) = hist.inject {
        let _ = write!(head, " inject {k}");
    }
    writeln!(out, "{head}").unwrap();
    out.flush().unwrap();
    reset_calls(hist.inject);

    let cap = hist.params.first().copied().unwrap_or(0) as usize;
    let created = catch_unwind(AssertUnwindSafe(|| match hist.coll {
        Coll::MapTree => Inst::MapTree(MapTree::new(cap)),
        Coll::MapList => Inst::MapList(MapList::new(cap)),
        Coll::SetTree => Inst::SetTree(SetTree::new(cap)),
        Coll::SetList => Inst::SetList(SetList::new(cap)),
        Coll::KeyTree => Inst::KeyTree(KeyExpTree::new(cap)),
        Coll::KeyList => Inst::KeyList(KeyExpList::new(cap)),
        Coll::Seg => Inst::Seg(SegExpTree::new(SegRange { min: hist.params[0], max: hist.params[1] })),
    }));
    let mut inst = match created {
        Ok(i) => i,
        Err(_) => {
            writeln!(out, "N => !PANIC ## NONE").unwrap();
            return;
        }
    };
    writeln!(out, "N => {} ## {}", if matches!(inst, Inst::Seg(None)) { "none" } else { "ok" }, inst.snap()).unwrap();

    let mut held: Vec<u32> = Vec::new();
    let mut next_id: u32 = 0;
    let bound = hist.ops.len() + 2;
    // ITV_SNAP_EVERY=k: record the state only after every k-th operation (and the last one)
    let snap_every: usize = std::env::var("ITV_SNAP_EVERY").ok().and_then(|s| s.parse().ok()).unwrap_or(1);
    // ITV_SNAP_KINDS=I,C: additionally record the state after every operation of these kinds
    let snap_kinds: Vec<String> = std::env::var("ITV_SNAP_KINDS").ok().map(|s| s.split(',').map(|x| x.to_string()).collect()).unwrap_or_default();
    let injecting = hist.inject.is_some();
    let is_mapset = matches!(hist.coll, Coll::MapTree | Coll::MapList | Coll::SetTree | Coll::SetList);
    for (op_index, op) in hist.ops.iter().enumerate() {
        let mut attempt = 0;
        loop {
            attempt += 1;
            // the state before the operation, to tell whether an injected panic left it untouched
            let before = if injecting && attempt == 1 { Some(inst.snap()) } else { None };
            write!(out, "{}", op.text()).unwrap();
            out.flush().unwrap();
            let calls_before = CALLS.with(|c| c.get());
            CURRENT_ID.with(|c| c.set(PROBE_ID));
            let _ = take_seen();
            let mut fork_snap: Option<String> = None;
            let r = catch_unwind(AssertUnwindSafe(|| match (&mut inst, op) {
                (Inst::KeyTree(c), Op::Fork(f)) => match &**f {
                    Op::K(o) => {
                        let mut c2 = c.verif_clone();
                        let a = exec_key(&mut c2, &mut next_id, o);
                        fork_snap = Some(KeyColl::snap(&c2));
                        a
                    }
                    _ => panic!("fork of a non-key operation"),
                },
                (Inst::KeyList(c), Op::Fork(f)) => match &**f {
                    Op::K(o) => {
                        let mut c2 = c.verif_clone();
                        let a = exec_key(&mut c2, &mut next_id, o);
                        fork_snap = Some(KeyColl::snap(&c2));
                        a
                    }
                    _ => panic!("fork of a non-key operation"),
                },
                (Inst::MapTree(c), Op::M(o)) => exec_map(c, &mut held, o),
                (Inst::MapList(c), Op::M(o)) => exec_map(c, &mut held, o),
                (Inst::SetTree(c), Op::M(o)) => exec_set(c, &mut held, o, bound),
                (Inst::SetList(c), Op::M(o)) => exec_set(c, &mut held, o, bound),
                (Inst::KeyTree(c), Op::K(o)) => exec_key(c, &mut next_id, o),
                (Inst::KeyList(c), Op::K(o)) => exec_key(c, &mut next_id, o),
                (Inst::Seg(Some(t)), Op::S(o)) => exec_seg(t, o),
                (Inst::Seg(None), Op::S(_)) => "notree".into(),
                _ => panic!("operation does not fit the collection"),
            }));
            let mut injected = false;
            let ans = match r {
                Ok(s) => s,
                Err(e) => {
                    let msg = if let Some(s) = e.downcast_ref::<String>() {
                        s.clone()
                    } else if let Some(s) = e.downcast_ref::<&str>() {
                        s.to_string()
                    } else {
                        "?".into()
                    };
                    if msg.starts_with("injected panic") {
                        injected = true;
                        "!INJECTED".to_string()
                    } else {
                        format!("!PANIC {}", msg.replace('\n', " ").replace("=>", "->").replace("##", "#"))
                    }
                }
            };
            let seen = take_seen();
            let calls = CALLS.with(|c| c.get()) - calls_before;
            let snap = if let Some(fs) = fork_snap {
                fs
            } else if injected
                || (op_index + 1) % snap_every == 0
                || op_index + 1 == hist.ops.len()
                || (!snap_kinds.is_empty() && snap_kinds.iter().any(|k| op.text().split(' ').next() == Some(k.as_str())))
            {
                catch_unwind(AssertUnwindSafe(|| inst.snap())).unwrap_or_else(|_| "BROKEN snapshot hook panicked".into())
            } else {
                "-".into()
            };
            let is_key = matches!(hist.coll, Coll::KeyTree | Coll::KeyList);
            if is_key {
                writeln!(out, " => {} @ {}#{} ## {}", ans.trim_end(), fmt_seen(&seen), calls, snap).unwrap();
            } else {
                writeln!(out, " => {} @ #{} ## {}", ans.trim_end(), calls, snap).unwrap();
            }
            // a map / set operation that panicked before changing anything is issued again, so that
            // the rest of the history stays inside the contract (a skipped delete followed by an
            // insert of the same key would not be)
            if injected && is_mapset && attempt == 1 && before.as_deref() == Some(snap.as_str()) {
                continue;
            }
            break;
        }
    }
}

/// Builds expiring-key trees of `n`, `n/10`, ... entries in ascending, descending and shuffled key
/// order (a third of the entries already expired at the export time) and prints, for each, the
/// capacity and length of the exported vector next to the number of physically stored entries.
pub fn big_export(n: usize) {
    let mut size = n;
    let mut rng = crate::rng::Rng::new(n as u64);
    loop {
        for order in 0..3 {
            let mut keys: Vec<i32> = (0..size as i32).collect();
            match order {
                0 => {}
                1 => keys.reverse(),
                _ => {
                    for i in (1..keys.len()).rev() {
                        let j = rng.below(i as u64 + 1) as usize;
                        keys.swap(i, j);
                    }
                }
            }
            let mut t: KeyExpTree<KKey, i32, i64> = KeyExpTree::new(8);
            for (i, k) in keys.iter().enumerate() {
                let e = if i % 3 == 0 { 5 } else { 1_000_000 };
                t.insert(KKey { k: *k, exp: e, id: i as u32 + 1 }, i as i64, 0);
            }
            let (_, nodes, unused, _) = t.verif_snapshot();
            let stored = nodes.len() - unused.len() - 1;
            for time in [0, 5] {
                let v = t.verif_clone().into_ordered_vec(time);
                println!("BIGEXPORT order={} time={} inserted={} stored={} len={} cap={}", order, time, size, stored, v.len(), v.capacity());
            }
        }
        if size < 10 {
            break;
        }
        size /= 10;
    }
    println!("#END");
}
