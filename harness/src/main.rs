//! itv — differential-testing harness for iTree.
//!
//! Executes operation histories on the real collections built from /repo's working tree and
//! writes one trace line per operation:
//!
//!     <op> => <answers> [@ <stored keys handed to user comparison code>] ## <snapshot>
//!
//! The OCaml model runner replays the same operations on the extracted Coq model and compares.
//! Modes:
//!     itv gen <profile> <seed> <histories> [size]   generate in-contract histories and execute them
//!     itv replay <file>                             execute the histories of a script / trace file
//! The op text is flushed BEFORE the operation runs, so that a non-unwinding abort or a crash
//! leaves the offending operation as the last (unterminated) line of the output.

mod exec;
mod gen;
mod ops;
mod rng;
mod types;

use std::io::{BufRead, Write};

fn main() {
    let args: Vec<String> = std::env::args().collect();
    if args.len() < 2 {
        eprintln!("usage: itv gen <profile> <seed> <histories> [size] | itv replay <file>");
        std::process::exit(2);
    }
    std::panic::set_hook(Box::new(|_| {}));
    let stdout = std::io::stdout();
    let mut out = std::io::BufWriter::with_capacity(1 << 16, stdout.lock());
    match args[1].as_str() {
        "gen" => {
            let profile = args[2].as_str();
            let seed: u64 = args[3].parse().expect("seed");
            let n: usize = args[4].parse().expect("histories");
            let size: usize = if args.len() > 5 { args[5].parse().expect("size") } else { 0 };
            let hists = gen::generate(profile, seed, n, size);
            for (i, h) in hists.iter().enumerate() {
                exec::run_history(&mut out, i, h);
            }
        }
        "replay" => {
            let f = std::fs::File::open(&args[2]).expect("open script");
            let hists = ops::parse_script(std::io::BufReader::new(f).lines().map(|l| l.unwrap()));
            for (i, h) in hists.iter().enumerate() {
                exec::run_history(&mut out, i, h);
            }
        }
        other => {
            eprintln!("unknown mode {other}");
            std::process::exit(2);
        }
    }
    writeln!(out, "#END").unwrap();
    out.flush().unwrap();
}
