//! itv — differential-testing harness for iTree.
//!
//! Executes operation histories on the real collections built from /repo's working tree and
//! writes one trace line per operation:
//!
//!     <op> => <answers> [@ <stored keys handed to user comparison code>] ## <snapshot>
//!
//! The OCaml model runner replays the same operations on the extracted Coq model and compares.
//! Modes:
//!     itv gen <profile> <seed> <histories> [size]   generate in-contract histories and execute them
//!     itv replay <file>                             execute the histories of a script / trace file
//! The op text is flushed BEFORE the operation runs, so that a non-unwinding abort or a crash
//! leaves the offending operation as the last (unterminated) line of the output.

mod big;
mod exec;
mod exhaust;
mod gen;
mod ops;
mod rng;
mod types;

use std::io::{BufRead, Write};

fn main() {
    let args: Vec<String> = std::env::args().collect();
    if args.len() < 2 {
        eprintln!("usage: itv gen <profile> <seed> <histories> [size] | itv replay <file>");
        std::process::exit(2);
    }
    std::panic::set_hook(Box::new(|_| {}));
    let out = ();
    let hists: Vec<ops::History> = match args[1].as_str() {
        "gen" => {
            let profile = args[2].as_str();
            let seed: u64 = args[3].parse().expect("seed");
            let n: usize = args[4].parse().expect("histories");
            let size: usize = if args.len() > 5 { args[5].parse().expect("size") } else { 0 };
            gen::generate(profile, seed, n, size)
        }
        "bigexport" => {
            // C19 on trees too large for the model runner: capacity of the exported vector against the
            // number of stored entries, three insertion orders; sizes n, n/10, n/100, ...
            let n: usize = args[2].parse().expect("n");
            exec::big_export(n);
            return;
        }
        "deep" => {
            // direct check on trees of n entries inserted in ascending / descending order
            let n: usize = args[2].parse().expect("n");
            let which = if args.len() > 3 { args[3].clone() } else { "maptree,settree,keytree".to_string() };
            exec::deep(n, &which);
            return;
        }
        "cycle" => {
            let n: usize = args[2].parse().expect("n");
            let which = if args.len() > 3 { args[3].clone() } else { "maptree,settree,keytree".to_string() };
            exec::cycle(n, &which);
            return;
        }
        "replay" => {
            let f = std::fs::File::open(&args[2]).expect("open script");
            ops::parse_script(std::io::BufReader::new(f).lines().map(|l| l.unwrap()))
        }
        other => {
            eprintln!("unknown mode {other}");
            std::process::exit(2);
        }
    };
    // ITV_START=k: skip the first k histories (the orchestrator restarts the harness after the
    // history that killed the process).  ITV_HIST_TIMEOUT=s: a history that does not finish within
    // s seconds is abandoned (its thread keeps spinning) and reported as "!HANG".
    let start: usize = std::env::var("ITV_START").ok().and_then(|s| s.parse().ok()).unwrap_or(0);
    let limit: u64 = std::env::var("ITV_HIST_TIMEOUT").ok().and_then(|s| s.parse().ok()).unwrap_or(20);
    let hists = std::sync::Arc::new(hists);
    let mut hangs = 0;
    drop(out);
    let say = |text: &str| {
        let so = std::io::stdout();
        let mut l = so.lock();
        l.write_all(text.as_bytes()).unwrap();
        l.flush().unwrap();
    };
    for i in start..hists.len() {
        CURRENT.store(i, std::sync::atomic::Ordering::SeqCst);
        let last_nl = std::sync::Arc::new(std::sync::atomic::AtomicBool::new(true));
        let (tx, rx) = std::sync::mpsc::channel::<()>();
        let (nl2, h2) = (last_nl.clone(), hists.clone());
        let th = std::thread::Builder::new().stack_size(64 << 20).spawn(move || {
            let mut w = SharedBuf { buf: Vec::with_capacity(1 << 16), id: i, last_nl: nl2 };
            exec::run_history(&mut w, i, &h2[i]);
            let _ = w.flush();
            let _ = tx.send(());
        }).expect("spawn");
        match rx.recv_timeout(std::time::Duration::from_secs(limit)) {
            Ok(()) => {
                let _ = th.join();
            }
            Err(std::sync::mpsc::RecvTimeoutError::Disconnected) => {
                // the history thread died outside catch_unwind: treat as a crash of the harness
                std::process::exit(3);
            }
            Err(std::sync::mpsc::RecvTimeoutError::Timeout) => {
                // silence the abandoned thread, then close its last line
                CURRENT.store(usize::MAX, std::sync::atomic::Ordering::SeqCst);
                if !last_nl.load(std::sync::atomic::Ordering::SeqCst) {
                    say(&format!(" => !HANG no result within {limit}s ## -\n"));
                } else {
                    say("# !HANG between operations\n");
                }
                hangs += 1;
                if hangs >= 6 {
                    say("# too many hanging histories: giving up on this batch\n");
                    break;
                }
            }
        }
    }
    say("#END\n");
    if hangs > 0 {
        std::process::exit(0); // abandoned threads are still spinning
    }
}

static CURRENT: std::sync::atomic::AtomicUsize = std::sync::atomic::AtomicUsize::new(0);

/// The writer of a history thread: buffered, written through to stdout on every flush (the executor
/// flushes the operation text BEFORE running the operation, so an abort or a hang leaves the
/// operation in flight as the last, unterminated line).  A thread that was abandoned is silenced.
struct SharedBuf {
    buf: Vec<u8>,
    id: usize,
    last_nl: std::sync::Arc<std::sync::atomic::AtomicBool>,
}
impl Write for SharedBuf {
    fn write(&mut self, b: &[u8]) -> std::io::Result<usize> {
        self.buf.extend_from_slice(b);
        if self.buf.len() > (1 << 16) {
            self.flush()?;
        }
        Ok(b.len())
    }
    fn flush(&mut self) -> std::io::Result<()> {
        if self.buf.is_empty() {
            return Ok(());
        }
        if CURRENT.load(std::sync::atomic::Ordering::SeqCst) == self.id {
            let so = std::io::stdout();
            let mut l = so.lock();
            l.write_all(&self.buf)?;
            l.flush()?;
            self.last_nl.store(self.buf.last() == Some(&b'\n'), std::sync::atomic::Ordering::SeqCst);
        }
        self.buf.clear();
        Ok(())
    }
}
