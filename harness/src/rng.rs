//! xorshift64* — every random choice of a run derives from one seed.
pub struct Rng(u64);

impl Rng {
    pub fn new(seed: u64) -> Self {
        let mut r = Rng(seed.wrapping_mul(0x9E3779B97F4A7C15) ^ 0xD1B54A32D192ED03);
        if r.0 == 0 {
            r.0 = 0x2545F4914F6CDD1D;
        }
        for _ in 0..4 {
            r.next();
        }
        r
    }
    pub fn next(&mut self) -> u64 {
        let mut x = self.0;
        x ^= x >> 12;
        x ^= x << 25;
        x ^= x >> 27;
        self.0 = x;
        x.wrapping_mul(0x2545F4914F6CDD1D)
    }
    /// uniform in 0..n (n > 0)
    pub fn below(&mut self, n: u64) -> u64 {
        self.next() % n
    }
    pub fn range(&mut self, lo: i64, hi: i64) -> i64 {
        lo + (self.next() % ((hi - lo + 1) as u64)) as i64
    }
    pub fn chance(&mut self, percent: u64) -> bool {
        self.below(100) < percent
    }
    pub fn pick<'a, T>(&mut self, v: &'a [T]) -> &'a T {
        &v[self.below(v.len() as u64) as usize]
    }
}
