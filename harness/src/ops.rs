//! Operation vocabulary, text form and parser.

#[derive(Clone, Copy, PartialEq, Eq, Debug)]
pub enum Coll {
    MapTree,
    SetTree,
    KeyTree,
    MapList,
    SetList,
    KeyList,
    Seg,
}

impl Coll {
    pub fn name(self) -> &'static str {
        match self {
            Coll::MapTree => "maptree",
            Coll::SetTree => "settree",
            Coll::KeyTree => "keytree",
            Coll::MapList => "maplist",
            Coll::SetList => "setlist",
            Coll::KeyList => "keylist",
            Coll::Seg => "seg",
        }
    }
    pub fn parse(s: &str) -> Coll {
        match s {
            "maptree" => Coll::MapTree,
            "settree" => Coll::SetTree,
            "keytree" => Coll::KeyTree,
            "maplist" => Coll::MapList,
            "setlist" => Coll::SetList,
            "keylist" => Coll::KeyList,
            "seg" => Coll::Seg,
            _ => panic!("unknown collection {s}"),
        }
    }
}

/// Operations on map / set (tree and list variants).  Handle-taking operations obtain their handle
/// through `first_index_less(k)` inside the same operation, so every handle is fresh.
#[derive(Clone, Debug)]
pub enum MOp {
    Ins(i32, i64),
    Del(i32),
    Get(i32),
    IsEmpty,
    First(i32),
    FirstBy(i32),  // comparator |x| x.cmp(k)
    FirstTh(i32),  // comparator |x| if x < k { Less } else { Greater }  (never Equal)
    Write(i32, i64),
    DelIdx(i32),
    Clear,
    After(i32),
    Before(i32),
    WalkF(i32),
    WalkB(i32),
    Hold(i32),
    Chk,
}

/// Operations on the expiring-key collections.
#[derive(Clone, Debug)]
pub enum KOp {
    Ins { k: i32, e: i32, v: i64, t: i32 },
    Less(i32, i32),   // (time, key)
    LessEq(i32, i32),
    By(i32, i32),     // comparator |x| x.k.cmp(k)
    Th(i32, i32),     // comparator |x| if x.k <= k { Less } else { Greater }
    Get(i32, i32),
    IsEmpty,
    Clear,
    Export(i32),
}

#[derive(Clone, Debug)]
pub enum SOp {
    Ins { a: i64, b: i64, id: i64, e: i32 },
    Query { a: i64, b: i64, t: i32, n: i64 }, // n < 0: consume completely
    Clear,
}

#[derive(Clone, Debug)]
pub enum Op {
    M(MOp),
    K(KOp),
    S(SOp),
    /// run the operation on an independent copy of the collection (expiring-key collections only):
    /// answers and resulting state are recorded, the collection itself stays as it was
    Fork(Box<Op>),
}

#[derive(Clone, Debug)]
pub struct History {
    pub coll: Coll,
    /// capacity hint, or (lo, hi) for the segment tree
    pub params: Vec<i64>,
    pub ops: Vec<Op>,
    /// (history index, first op index): the answers of this history must equal those of that one
    pub twin: Option<(usize, usize)>,
    /// panic at the k-th user-callback invocation of the history (counted from 0)
    pub inject: Option<u64>,
}

impl Op {
    pub fn text(&self) -> String {
        match self {
            Op::Fork(o) => format!("~ {}", o.text()),
            Op::M(o) => match o {
                MOp::Ins(k, v) => format!("I {k} {v}"),
                MOp::Del(k) => format!("D {k}"),
                MOp::Get(k) => format!("G {k}"),
                MOp::IsEmpty => "E".into(),
                MOp::First(k) => format!("F {k}"),
                MOp::FirstBy(k) => format!("FB {k}"),
                MOp::FirstTh(k) => format!("FT {k}"),
                MOp::Write(k, v) => format!("W {k} {v}"),
                MOp::DelIdx(k) => format!("X {k}"),
                MOp::Clear => "C".into(),
                MOp::After(k) => format!("A {k}"),
                MOp::Before(k) => format!("B {k}"),
                MOp::WalkF(k) => format!("WF {k}"),
                MOp::WalkB(k) => format!("WB {k}"),
                MOp::Hold(k) => format!("HOLD {k}"),
                MOp::Chk => "CHK".into(),
            },
            Op::K(o) => match o {
                KOp::Ins { k, e, v, t } => format!("I {k} {e} {v} {t}"),
                KOp::Less(t, k) => format!("QL {t} {k}"),
                KOp::LessEq(t, k) => format!("QE {t} {k}"),
                KOp::By(t, k) => format!("QB {t} {k}"),
                KOp::Th(t, k) => format!("QT {t} {k}"),
                KOp::Get(t, k) => format!("G {t} {k}"),
                KOp::IsEmpty => "E".into(),
                KOp::Clear => "C".into(),
                KOp::Export(t) => format!("V {t}"),
            },
            Op::S(o) => match o {
                SOp::Ins { a, b, id, e } => format!("I {a} {b} {id} {e}"),
                SOp::Query { a, b, t, n } => format!("Q {a} {b} {t} {n}"),
                SOp::Clear => "C".into(),
            },
        }
    }
}

fn parse_op(coll: Coll, toks: &[&str]) -> Op {
    if toks[0] == "~" {
        return Op::Fork(Box::new(parse_op(coll, &toks[1..])));
    }
    let i = |j: usize| -> i64 { toks[j].parse().unwrap_or_else(|_| panic!("bad number {:?}", toks)) };
    match coll {
        Coll::MapTree | Coll::SetTree | Coll::MapList | Coll::SetList => Op::M(match toks[0] {
            "I" => MOp::Ins(i(1) as i32, i(2)),
            "D" => MOp::Del(i(1) as i32),
            "G" => MOp::Get(i(1) as i32),
            "E" => MOp::IsEmpty,
            "F" => MOp::First(i(1) as i32),
            "FB" => MOp::FirstBy(i(1) as i32),
            "FT" => MOp::FirstTh(i(1) as i32),
            "W" => MOp::Write(i(1) as i32, i(2)),
            "X" => MOp::DelIdx(i(1) as i32),
            "C" => MOp::Clear,
            "A" => MOp::After(i(1) as i32),
            "B" => MOp::Before(i(1) as i32),
            "WF" => MOp::WalkF(i(1) as i32),
            "WB" => MOp::WalkB(i(1) as i32),
            "HOLD" => MOp::Hold(i(1) as i32),
            "CHK" => MOp::Chk,
            t => panic!("unknown map/set op {t}"),
        }),
        Coll::KeyTree | Coll::KeyList => Op::K(match toks[0] {
            "I" => KOp::Ins { k: i(1) as i32, e: i(2) as i32, v: i(3), t: i(4) as i32 },
            "QL" => KOp::Less(i(1) as i32, i(2) as i32),
            "QE" => KOp::LessEq(i(1) as i32, i(2) as i32),
            "QB" => KOp::By(i(1) as i32, i(2) as i32),
            "QT" => KOp::Th(i(1) as i32, i(2) as i32),
            "G" => KOp::Get(i(1) as i32, i(2) as i32),
            "E" => KOp::IsEmpty,
            "C" => KOp::Clear,
            "V" => KOp::Export(i(1) as i32),
            t => panic!("unknown key op {t}"),
        }),
        Coll::Seg => Op::S(match toks[0] {
            "I" => SOp::Ins { a: i(1), b: i(2), id: i(3), e: i(4) as i32 },
            "Q" => SOp::Query { a: i(1), b: i(2), t: i(3) as i32, n: i(4) },
            "C" => SOp::Clear,
            t => panic!("unknown seg op {t}"),
        }),
    }
}

/// Parses a script or a previously written trace (everything after " =>" on a line is ignored).
pub fn parse_script<I: Iterator<Item = String>>(lines: I) -> Vec<History> {
    let mut hists: Vec<History> = Vec::new();
    for line in lines {
        let line = line.trim();
        if line.is_empty() {
            continue;
        }
        let head = match line.find(" =>") {
            Some(p) => &line[..p],
            None => line,
        };
        let toks: Vec<&str> = head.split_whitespace().collect();
        if toks.is_empty() {
            continue;
        }
        if toks[0] == "H" {
            // H <coll> <hid> <params...> [twin <h> <off>] [inject <k>]
            let coll = Coll::parse(toks[1]);
            let mut params = Vec::new();
            let mut twin = None;
            let mut inject = None;
            let mut j = 3;
            while j < toks.len() {
                match toks[j] {
                    "twin" => {
                        twin = Some((toks[j + 1].parse().unwrap(), toks[j + 2].parse().unwrap()));
                        j += 3;
                    }
                    "inject" => {
                        inject = Some(toks[j + 1].parse().unwrap());
                        j += 2;
                    }
                    t => {
                        params.push(t.parse().unwrap());
                        j += 1;
                    }
                }
            }
            hists.push(History { coll, params, ops: Vec::new(), twin, inject });
        } else if toks[0].starts_with('#') {
            continue;
        } else {
            let h = hists.last_mut().expect("operation before any H line");
            let op = parse_op(h.coll, &toks);
            h.ops.push(op);
        }
    }
    hists
}
