//! Histories that reach LARGE states: trees and lists of hundreds to thousands of entries, arenas
//! filled exactly to their capacity hint, clears of large collections followed by refills beyond
//! the old arena, mass expiry on one search path, capacity hints well above the defaults.  Short
//! random histories over small universes never get there; a defect that needs a threshold
//! (a pool of >= 512 slots, a free list of >= 1024 entries, > 160 expired entries on one link,
//! a list buffer that is exactly full at >= 768 entries) shows only here.
//! The trace is meant to be taken with sparse snapshots (ITV_SNAP_EVERY=50, ITV_SNAP_KINDS=C):
//! a corrupted free list or arena persists in the state until it is consumed.

use crate::ops::*;
use crate::rng::Rng;
use std::collections::BTreeMap;

const BIG_CAPS: [i64; 18] = [0, 1, 8, 8, 100, 128, 200, 256, 300, 512, 700, 768, 1000, 1024, 1500, 2048, 4097, 5000];
const FILLS: [usize; 10] = [130, 200, 260, 520, 700, 1030, 1500, 2100, 3000, 4200];

/// a capacity hint the history can fill (exact fills need hint - 1 entries)
fn pick_big_cap(rng: &mut Rng, limit: usize) -> i64 {
    loop {
        let c = *rng.pick(&BIG_CAPS);
        if c as usize <= 2 * limit {
            return c;
        }
    }
}

fn shuffled(rng: &mut Rng, n: usize, spread: i32) -> Vec<i32> {
    // n distinct keys; spread 1: 0..n, otherwise a sparse universe
    let mut keys: Vec<i32> = (0..n as i32).map(|k| k * spread).collect();
    match rng.below(4) {
        0 => {}
        1 => keys.reverse(),
        _ => {
            for i in (1..keys.len()).rev() {
                let j = rng.below(i as u64 + 1) as usize;
                keys.swap(i, j);
            }
        }
    }
    keys
}

/// random tail on a map / set with a known reference state
fn mapset_tail(rng: &mut Rng, is_set: bool, nops: usize, reference: &mut BTreeMap<i32, i64>, next_val: &mut i64, ops: &mut Vec<Op>) {
    let hi = reference.keys().next_back().copied().unwrap_or(0).max(50) + 20;
    let mut held = 0usize;
    for _ in 0..nops {
        let k = rng.range(-1, hi as i64) as i32;
        match rng.below(14) {
            0 | 1 | 2 => {
                if !reference.contains_key(&k) {
                    reference.insert(k, *next_val);
                    ops.push(Op::M(MOp::Ins(k, *next_val)));
                    *next_val += 1;
                    if held > 0 {
                        ops.push(Op::M(MOp::Chk));
                    }
                } else {
                    ops.push(Op::M(MOp::Get(k)));
                }
            }
            3 | 4 | 5 => {
                // delete a present key most of the time
                let kk = if rng.chance(80) && !reference.is_empty() {
                    let idx = rng.below(reference.len() as u64) as usize;
                    *reference.keys().nth(idx).unwrap()
                } else {
                    k
                };
                reference.remove(&kk);
                held = 0;
                ops.push(Op::M(MOp::Del(kk)));
            }
            6 | 7 => ops.push(Op::M(MOp::Get(k))),
            8 => ops.push(Op::M(match rng.below(3) {
                0 => MOp::First(k),
                1 => MOp::FirstBy(k),
                _ => MOp::FirstTh(k),
            })),
            9 => {
                if let Some((&pk, _)) = reference.range(..=k).next_back() {
                    reference.remove(&pk);
                }
                held = 0;
                ops.push(Op::M(MOp::DelIdx(k)));
            }
            10 => {
                if !reference.is_empty() {
                    let idx = rng.below(reference.len() as u64) as usize;
                    let kk = *reference.keys().nth(idx).unwrap();
                    held += 1;
                    ops.push(Op::M(MOp::Hold(kk)));
                }
            }
            11 => {
                if let Some((&pk, _)) = reference.range(..=k).next_back() {
                    reference.insert(pk, *next_val);
                }
                ops.push(Op::M(MOp::Write(k, *next_val)));
                *next_val += 1;
            }
            _ => {
                if is_set {
                    // complete walks are quadratic for the reference semantics: rare on large sets
                    ops.push(Op::M(match rng.below(24) {
                        0 => MOp::WalkF(reference.keys().next().copied().unwrap_or(0)),
                        1 => MOp::WalkB(reference.keys().next_back().copied().unwrap_or(0)),
                        r if r % 2 == 0 => MOp::After(k),
                        _ => MOp::Before(k),
                    }));
                } else {
                    ops.push(Op::M(MOp::Get(k)));
                }
            }
        }
    }
}

pub fn gen_big_mapset(rng: &mut Rng, coll: Coll, scale: usize, template: u64) -> History {
    let is_set = coll == Coll::SetTree;
    let limit = if scale == 0 { 4200 } else { scale };
    let cap = pick_big_cap(rng, limit);
    let arena = cap.max(8) as usize; // slots of the fresh arena, slot 0 is the sentinel
    let mut reference: BTreeMap<i32, i64> = BTreeMap::new();
    let mut ops: Vec<Op> = Vec::new();
    let mut next_val: i64 = 1;
    let template = template % 6;
    let spread = *rng.pick(&[1, 1, 3, 1000]);
    let ins = |k: i32, reference: &mut BTreeMap<i32, i64>, ops: &mut Vec<Op>, next_val: &mut i64| {
        if !reference.contains_key(&k) {
            reference.insert(k, *next_val);
            ops.push(Op::M(MOp::Ins(k, *next_val)));
            *next_val += 1;
        }
    };
    match template {
        0 | 1 => {
            // fill, (delete a few), clear, refill beyond the old arena, use
            // template 1: the arena is (nearly) exactly full when it is cleared
            let n1 = if template == 1 {
                let full = *rng.pick(&[127usize, 255, 511, 1023, 2047]);
                (arena.max(full + 1) - 1).min(2 * limit)
            } else {
                (*rng.pick(&FILLS)).min(limit)
            };
            for k in shuffled(rng, n1, spread) {
                ins(k, &mut reference, &mut ops, &mut next_val);
            }
            let dels = if template == 1 { *rng.pick(&[0usize, 1, 1, 2, 3]) } else { *rng.pick(&[0usize, 0, 1, 3, n1 / 64, n1 / 2]) };
            for _ in 0..dels {
                if reference.is_empty() {
                    break;
                }
                let idx = rng.below(reference.len() as u64) as usize;
                let kk = *reference.keys().nth(idx).unwrap();
                reference.remove(&kk);
                ops.push(Op::M(MOp::Del(kk)));
            }
            ops.push(Op::M(MOp::Get(1)));
            reference.clear();
            ops.push(Op::M(MOp::Clear));
            ops.push(Op::M(MOp::IsEmpty));
            // (after a clear of a full arena the refill always goes beyond the old arena)
            let n2 = match rng.below(10) + if template == 1 { 2 } else { 0 } {
                0 => n1 / 2,
                1 => n1 + 10,
                2 | 3 | 4 => 2 * n1.max(arena) + 10,
                _ => n1 + arena + 200,
            }
            .min(2 * limit + 300);
            let sp2 = *rng.pick(&[1, 2]);
            let keys2 = shuffled(rng, n2, sp2);
            // handles are taken all along the refill and checked across the growth of the arena
            for (i, k) in keys2.iter().enumerate() {
                ins(*k, &mut reference, &mut ops, &mut next_val);
                ops.push(Op::M(MOp::Hold(*k)));
                if i % 128 == 127 || i + 3 >= n2 {
                    ops.push(Op::M(MOp::Chk));
                }
            }
            ops.push(Op::M(MOp::Chk));
            // a few removals (some of them black leaves: the sentinel slot is written), then every
            // stored key asked for through the handle and the look-up interface
            for _ in 0..20 {
                if reference.is_empty() {
                    break;
                }
                let idx = rng.below(reference.len() as u64) as usize;
                let kk = *reference.keys().nth(idx).unwrap();
                reference.remove(&kk);
                ops.push(Op::M(MOp::Del(kk)));
            }
            let all: Vec<i32> = reference.keys().copied().collect();
            let step = (all.len() / 700).max(1);
            for k in all.iter().step_by(step) {
                ops.push(Op::M(MOp::First(*k)));
                ops.push(Op::M(MOp::Get(*k)));
            }
        }
        2 => {
            // fill the fresh arena exactly (arena - 1 entries), hold handles on everything, grow
            let n1 = ((arena as i64 - 1 + *rng.pick(&[-1i64, 0, 0, 0, 1])).max(1) as usize).min(2 * limit);
            let keys = shuffled(rng, n1, spread);
            for k in &keys {
                ins(*k, &mut reference, &mut ops, &mut next_val);
            }
            for k in keys.iter().rev().take(600) {
                ops.push(Op::M(MOp::Hold(*k)));
            }
            let base = (n1 as i32 + 5) * spread;
            let more = (*rng.pick(&[1usize, 2, 9, 40])).max(1) + if rng.chance(40) { arena } else { 0 };
            for j in 0..more.min(2 * limit) {
                ins(base + j as i32, &mut reference, &mut ops, &mut next_val);
                if j < 3 || j % 97 == 0 {
                    ops.push(Op::M(MOp::Chk));
                }
            }
            ops.push(Op::M(MOp::Chk));
        }
        4 => {
            // churn: a large fill, most of it removed through handles (the free list becomes long, its
            // capacity large), then growth beyond the old arena; handles are used all along
            let n1 = (*rng.pick(&[1300usize, 1600, 2400, 3000])).min(limit);
            let keys = shuffled(rng, n1, spread);
            for k in &keys {
                ins(*k, &mut reference, &mut ops, &mut next_val);
            }
            let ndel = n1 * (60 + rng.below(30) as usize) / 100;
            for k in keys.iter().take(ndel) {
                if reference.remove(k).is_some() {
                    ops.push(Op::M(if rng.chance(70) { MOp::DelIdx(*k) } else { MOp::Del(*k) }));
                }
            }
            let base = (n1 as i32 + 5) * spread;
            let more = n1 + n1 / 4;
            for j in 0..more {
                ins(base + j as i32, &mut reference, &mut ops, &mut next_val);
                if j % 16 == 0 {
                    ops.push(Op::M(MOp::First(base + j as i32)));
                }
                if j % 64 == 5 {
                    ops.push(Op::M(MOp::Write(base + j as i32 - 3, next_val)));
                    if let Some((&pk, _)) = reference.range(..=(base + j as i32 - 3)).next_back() {
                        reference.insert(pk, next_val);
                    }
                    next_val += 1;
                }
            }
        }
        5 => {
            // mid-size collections (65..400 entries) with EVERY stored key probed, before and after a
            // few removals: a defect at one particular position of a sorted buffer shows only so
            let n1 = match rng.below(4) {
                0 => rng.range(65, 80) as usize,
                1 => rng.range(81, 140) as usize,
                2 => 200,
                _ => 400,
            };
            for k in shuffled(rng, n1, 2) {
                ins(k, &mut reference, &mut ops, &mut next_val);
            }
            for round in 0..3 {
                let all: Vec<i32> = reference.keys().copied().collect();
                for k in &all {
                    ops.push(Op::M(MOp::Get(*k)));
                    ops.push(Op::M(match (k + round) % 3 {
                        0 => MOp::First(*k),
                        1 => MOp::FirstBy(*k),
                        _ => MOp::FirstTh(*k + 1),
                    }));
                }
                for _ in 0..(1 + round as usize * 3) {
                    if reference.is_empty() {
                        break;
                    }
                    let idx = rng.below(reference.len() as u64) as usize;
                    let kk = *reference.keys().nth(idx).unwrap();
                    reference.remove(&kk);
                    ops.push(Op::M(MOp::Del(kk)));
                }
            }
        }
        _ => {
            // several growth steps from the hint, handles checked across each
            let n1 = ((arena * (2 + rng.below(3) as usize)) + rng.below(20) as usize).min(2 * limit + 100);
            let keys = shuffled(rng, n1, spread);
            for (i, k) in keys.iter().enumerate() {
                ins(*k, &mut reference, &mut ops, &mut next_val);
                if i % 53 == 0 {
                    ops.push(Op::M(MOp::Hold(*k)));
                }
                if i % 211 == 210 {
                    ops.push(Op::M(MOp::Chk));
                }
            }
            ops.push(Op::M(MOp::Chk));
        }
    }
    // every stored key is still found
    let probes: Vec<i32> = reference.keys().copied().step_by((reference.len() / 40).max(1)).collect();
    for k in probes {
        ops.push(Op::M(MOp::Get(k)));
    }
    let tail = 60 + rng.below(60) as usize;
    mapset_tail(rng, is_set, tail, &mut reference, &mut next_val, &mut ops);
    History { coll, params: vec![cap], ops, twin: None, inject: None }
}

/// random tail on an expiring-key collection; `reference`: key -> expiration of its newest entry
fn key_tail(rng: &mut Rng, nops: usize, clock: &mut i32, reference: &mut BTreeMap<i32, i32>, next_val: &mut i64, ops: &mut Vec<Op>) {
    let hi = reference.keys().next_back().copied().unwrap_or(0).max(50) + 20;
    for _ in 0..nops {
        if rng.chance(20) {
            *clock += rng.range(0, 3) as i32;
        }
        let k = rng.range(-1, hi as i64) as i32;
        match rng.below(10) {
            0 | 1 | 2 | 3 => {
                if reference.get(&k).map_or(true, |&e| e <= *clock) {
                    let e = *clock + *rng.pick(&[0, 1, 2, 5, 1000, 1_000_000]);
                    reference.insert(k, e);
                    ops.push(Op::K(KOp::Ins { k, e, v: *next_val, t: *clock }));
                    *next_val += 1;
                } else {
                    ops.push(Op::K(KOp::Get(*clock, k)));
                }
            }
            4 => ops.push(Op::K(KOp::Less(*clock, k))),
            5 => ops.push(Op::K(KOp::LessEq(*clock, k))),
            6 => ops.push(Op::K(KOp::By(*clock, k))),
            7 => ops.push(Op::K(KOp::Th(*clock, k))),
            8 => ops.push(Op::K(KOp::Get(*clock, k))),
            _ => ops.push(Op::K(KOp::Export(*clock + rng.range(0, 2) as i32))),
        }
    }
}

pub fn gen_big_key(rng: &mut Rng, scale: usize, template: u64) -> History {
    let limit = if scale == 0 { 4200 } else { scale };
    let cap = pick_big_cap(rng, limit);
    let arena = cap.max(8) as usize;
    let mut reference: BTreeMap<i32, i32> = BTreeMap::new();
    let mut ops: Vec<Op> = Vec::new();
    let mut next_val: i64 = 1;
    let mut clock: i32 = 0;
    const FAR: i32 = 1_000_000;
    let template = template % 5;
    match template {
        0 => {
            // fill (a part already expiring early), clear, refill beyond the old arena, export
            let n1 = (*rng.pick(&FILLS)).min(limit);
            for (i, k) in shuffled(rng, n1, 1).into_iter().enumerate() {
                let e = if i % 5 == 0 { 7 } else { FAR };
                reference.insert(k, e);
                ops.push(Op::K(KOp::Ins { k, e, v: next_val, t: 0 }));
                next_val += 1;
            }
            ops.push(Op::K(KOp::Export(0)));
            ops.push(Op::K(KOp::Export(7)));
            reference.clear();
            ops.push(Op::K(KOp::Clear));
            ops.push(Op::K(KOp::IsEmpty));
            // mostly beyond the whole old arena (its length is at most n1 + the growth step)
            let n2 = match rng.below(10) {
                0 => n1 + 10,
                1 | 2 | 3 => 2 * n1.max(arena) + 10,
                _ => n1 + arena + 200,
            }
            .min(2 * limit + 300);
            for (i, k) in shuffled(rng, n2, 1).into_iter().enumerate() {
                let e = if i % 4 == 1 { 50 } else { FAR };
                reference.insert(k, e);
                ops.push(Op::K(KOp::Ins { k, e, v: next_val, t: 0 }));
                next_val += 1;
                if i % 500 == 499 {
                    ops.push(Op::K(KOp::Export(0)));
                }
            }
            ops.push(Op::K(KOp::Export(0)));
            // a quarter of the refilled entries has expired: the queries below remove many nodes
            // (black leaves among them) from the arena that was cleared and refilled
            clock = 60;
            let step = (n2 / 120).max(1);
            for k in (0..n2 as i32).step_by(step) {
                ops.push(Op::K(match k % 5 {
                    0 => KOp::Less(clock, k),
                    1 => KOp::LessEq(clock, k),
                    2 => KOp::By(clock, k),
                    3 => KOp::Th(clock, k),
                    _ => KOp::Get(clock, k),
                }));
            }
            ops.push(Op::K(KOp::Export(clock)));
            // every key is asked for once more: an entry that got detached by a damaged arena is
            // missed by exactly the queries for keys of its subtree
            for k in 0..n2 as i32 {
                ops.push(Op::K(match k % 4 {
                    0 => KOp::Less(clock, k + 1),
                    1 => KOp::LessEq(clock, k),
                    2 => KOp::By(clock, k),
                    _ => KOp::Th(clock, k),
                }));
            }
        }
        1 => {
            // the fresh arena exactly full, some entries already expired at the next insertion
            let n1 = ((arena as i64 - 1 + *rng.pick(&[-1i64, 0, 0, 0, 1])).max(1) as usize).min(2 * limit);
            let nexp = *rng.pick(&[1usize, 1, 3, 50]);
            for (i, k) in shuffled(rng, n1, 2).into_iter().enumerate() {
                let e = if i < nexp { 5 } else { FAR };
                reference.insert(k, e);
                ops.push(Op::K(KOp::Ins { k, e, v: next_val, t: 0 }));
                next_val += 1;
            }
            clock = 10;
            let more = *rng.pick(&[1usize, 2, 9, 40]) + if rng.chance(40) { arena } else { 0 };
            for j in 0..more.min(2 * limit) {
                let k = 2 * (n1 as i32 + 5 + j as i32) + 1;
                reference.insert(k, FAR);
                ops.push(Op::K(KOp::Ins { k, e: FAR, v: next_val, t: clock }));
                next_val += 1;
                if j < 2 {
                    ops.push(Op::K(KOp::Export(clock)));
                }
            }
            ops.push(Op::K(KOp::Export(clock)));
        }
        2 => {
            // mass expiry: hundreds of entries expire together, a few survive; then ONE operation
            // meets them all on its way
            let n1 = (*rng.pick(&[170usize, 200, 400, 600, 1000, 2000])).min(limit);
            // few survivors, so that long runs of expired entries follow each other on one link
            let live_mod = *rng.pick(&[100_000usize, 100_000, 500, 97]);
            for (i, k) in shuffled(rng, n1, 1).into_iter().enumerate() {
                let e = if i % live_mod == 13 { FAR } else { 10 };
                reference.insert(k, e);
                ops.push(Op::K(KOp::Ins { k, e, v: next_val, t: 0 }));
                next_val += 1;
            }
            clock = *rng.pick(&[10, 11, 20]);
            let k = *rng.pick(&[-1, 0, n1 as i32 / 2, n1 as i32, n1 as i32 + 5]);
            ops.push(Op::K(match rng.below(7) {
                0 => KOp::Less(clock, k),
                1 => KOp::LessEq(clock, k),
                2 => KOp::By(clock, k),
                3 => KOp::Th(clock, k),
                4 => KOp::Get(clock, k),
                5 => KOp::Export(clock),
                _ => {
                    let kk = n1 as i32 + 7;
                    reference.insert(kk, FAR);
                    next_val += 1;
                    KOp::Ins { k: kk, e: FAR, v: next_val - 1, t: clock }
                }
            }));
            ops.push(Op::K(KOp::Export(clock)));
        }
        3 => {
            // several growth steps from the hint with exports in between
            let n1 = ((arena * (2 + rng.below(3) as usize)) + rng.below(20) as usize).min(2 * limit + 100);
            for (i, k) in shuffled(rng, n1, 1).into_iter().enumerate() {
                reference.insert(k, FAR);
                ops.push(Op::K(KOp::Ins { k, e: FAR, v: next_val, t: 0 }));
                next_val += 1;
                if i % 397 == 396 {
                    ops.push(Op::K(KOp::Export(0)));
                }
            }
            ops.push(Op::K(KOp::Export(0)));
        }
        _ => {
            // every new entry beyond the first 200 is followed by a short-lived one with the
            // strictly smallest expiration and by queries at exactly that expiration: whatever the
            // size at which a buffer happens to be exactly full, this is tried there
            let n1 = (*rng.pick(&[300usize, 800, 1100, 1600, 2100])).min(limit);
            let mut special = 1;
            for i in 0..n1 {
                let k = 2 * i as i32;
                reference.insert(k, FAR + i as i32);
                ops.push(Op::K(KOp::Ins { k, e: FAR + i as i32, v: next_val, t: clock }));
                next_val += 1;
                if i >= 200 {
                    let sk = 2 * (rng.below(i as u64 + 1) as i32) + 1;
                    let se = 100 * special;
                    special += 1;
                    ops.push(Op::K(KOp::Ins { k: sk, e: se, v: next_val, t: clock }));
                    next_val += 1;
                    reference.insert(sk, se);
                    clock = se;
                    ops.push(Op::K(match rng.below(4) {
                        0 => KOp::LessEq(clock, sk),
                        1 => KOp::By(clock, sk),
                        2 => KOp::Th(clock, sk),
                        _ => KOp::Get(clock, sk),
                    }));
                }
            }
            ops.push(Op::K(KOp::Export(clock)));
        }
    }
    let probes: Vec<i32> = reference.keys().copied().step_by((reference.len() / 30).max(1)).collect();
    for k in probes {
        ops.push(Op::K(KOp::Get(clock, k)));
    }
    let tail = 40 + rng.below(60) as usize;
    key_tail(rng, tail, &mut clock, &mut reference, &mut next_val, &mut ops);
    History { coll: Coll::KeyTree, params: vec![cap], ops, twin: None, inject: None }
}

/// a large state followed by one more operation, repeated with a panic injected at each
/// user-callback invocation of that LAST operation only
pub fn gen_big_inject(rng: &mut Rng, scale: usize, which: u64, out: &mut Vec<History>) {
    let which = which % 6;
    let limit = if scale == 0 { 600 } else { scale };
    let mut h = match which {
        0 | 1 => {
            // sorted-list set / map with >= 256 entries, the last insert lands near the tail
            let coll = if which == 0 { Coll::SetList } else { Coll::MapList };
            let n = (*rng.pick(&[256usize, 257, 300, 520])).min(limit.max(256));
            let mut ops = Vec::new();
            for k in shuffled(rng, n, 10) {
                ops.push(Op::M(MOp::Ins(k, k as i64 + 1)));
            }
            let back = rng.range(1, 9) as i32;
            let k = 10 * (n as i32 - back) + 5;
            ops.push(Op::M(MOp::Ins(k, 777)));
            History { coll, params: vec![*rng.pick(&[0, 8, 300])], ops, twin: None, inject: None }
        }
        2 | 3 => {
            // expiring-key tree whose arena is exactly full, some entries expired at the last insert
            let cap = *rng.pick(&[256i64, 256, 300, 512]);
            let n = cap as usize - 1;
            let mut ops = Vec::new();
            let nexp = *rng.pick(&[1usize, 2, 50]);
            for (i, k) in shuffled(rng, n, 2).into_iter().enumerate() {
                let e = if i < nexp { 5 } else { 1_000_000 };
                ops.push(Op::K(KOp::Ins { k, e, v: i as i64 + 1, t: 0 }));
            }
            ops.push(Op::K(KOp::Ins { k: 2 * rng.range(0, n as i64) as i32 + 1, e: 1_000_000, v: 7777, t: 10 }));
            let coll = if which == 2 { Coll::KeyTree } else { Coll::KeyList };
            History { coll, params: vec![cap], ops, twin: None, inject: None }
        }
        4 => {
            let c = if rng.chance(50) { Coll::MapTree } else { Coll::SetTree };
            let t = rng.below(4);
            let mut h = gen_big_mapset(rng, c, limit, t); // templates 0..3: the short ones
            h.ops.retain(|o| !matches!(o, Op::M(MOp::Hold(_)) | Op::M(MOp::Chk)));
            h
        }
        _ => {
            let t = rng.below(5);
            gen_big_key(rng, limit, t)
        }
    };
    // histories longer than 600 operations are cut (the prefix is re-run once per injection point)
    if h.ops.len() > 600 {
        h.ops.truncate(600);
    }
    let mut prefix = h.clone();
    let last = prefix.ops.pop();
    if last.is_none() {
        return;
    }
    let (_, c0) = crate::exec::run_silent(&prefix);
    let (_, c1) = crate::exec::run_silent(&h);
    out.push(h.clone());
    let span = c1.saturating_sub(c0);
    let step = (span / 60).max(1);
    let mut k = c0;
    while k < c1 {
        let mut hk = h.clone();
        hk.inject = Some(k);
        out.push(hk);
        k += step;
    }
}

/// cleared-versus-fresh twins on LARGE states: (big history, clear, probes, big history) against
/// (fresh instance, probes, the same big history); the runner compares the answers of the two
/// suffix runs.  Handles are not compared (the free list of a cleared arena is ordered differently).
pub fn gen_big_twins(rng: &mut Rng, scale: usize, which: u64, out: &mut Vec<History>) {
    let colls = [Coll::MapTree, Coll::MapList, Coll::SetTree, Coll::SetList, Coll::KeyTree, Coll::KeyList];
    let coll = colls[(which % 6) as usize];
    let (tp, ts) = (rng.below(5), rng.below(5));
    let (mut pre, mut suf) = match coll {
        Coll::MapTree | Coll::MapList => (gen_big_mapset(rng, Coll::MapTree, scale, tp), gen_big_mapset(rng, Coll::MapTree, scale, ts)),
        Coll::SetTree | Coll::SetList => (gen_big_mapset(rng, Coll::SetTree, scale, tp), gen_big_mapset(rng, Coll::SetTree, scale, ts)),
        _ => (gen_big_key(rng, scale, tp), gen_big_key(rng, scale, ts)),
    };
    let strip = |h: &mut History| h.ops.retain(|o| !matches!(o, Op::M(MOp::Hold(_)) | Op::M(MOp::Chk)));
    strip(&mut pre);
    strip(&mut suf);
    pre.coll = coll;
    suf.coll = coll;
    let clear = match coll {
        Coll::KeyTree | Coll::KeyList => Op::K(KOp::Clear),
        _ => Op::M(MOp::Clear),
    };
    let probes: Vec<Op> = match coll {
        Coll::KeyTree | Coll::KeyList => vec![Op::K(KOp::IsEmpty), Op::K(KOp::LessEq(0, 1000)), Op::K(KOp::Get(0, 3)), Op::K(KOp::Export(0))],
        _ => vec![Op::M(MOp::IsEmpty), Op::M(MOp::Get(3)), Op::M(MOp::First(1000))],
    };
    // a = pre ; clear ; probes ; suf        b = probes ; suf  (fresh, its own capacity hint)
    let mut a = pre.clone();
    a.ops.push(clear);
    let off = a.ops.len();
    a.ops.extend(probes.iter().cloned());
    a.ops.extend(suf.ops.iter().cloned());
    let mut b = suf.clone();
    b.ops = probes;
    b.ops.extend(suf.ops.iter().cloned());
    let idx = out.len();
    b.twin = Some((idx, off));
    out.push(a);
    out.push(b);
}

/// segment tree with LONG bucket lists: hundreds of copies in one place (inserted one by one across the
/// sizes at which a Vec is exactly full), expirations below / equal to / above the query time, a later
/// place holding expired copies, repeated queries at the same time; or thousands of expired copies met
/// by a single query.  Meant for ITV_SNAP_EVERY=1000000 ITV_SNAP_KINDS=Q (the lists are dumped after
/// every query only).
pub fn gen_big_seg(rng: &mut Rng, scale: usize, template: u64) -> History {
    let (lo, hi): (i64, i64) = *rng.pick(&[(0, 1023), (0, 31), (-512, 511), (0, 4095), (0, 63)]);
    let len = hi - lo + 1;
    let mut ops: Vec<Op> = Vec::new();
    let mut next_id: i64 = 1;
    let limit = if scale == 0 { 6000 } else { scale };
    let whole = |t: i32, n: i64| Op::S(SOp::Query { a: lo, b: hi, t, n });
    match template % 3 {
        0 | 1 => {
            // one long list (a single point, so one place), a later place with expired copies
            let p1 = lo + rng.range(0, len / 2 - 1);
            let p2 = (p1 + len / 2).min(hi);
            let tq: i32 = 10;
            ops.push(whole(1, -1));
            let total = (*rng.pick(&[300usize, 540, 1100])).min(limit);
            for i in 0..total {
                let e = match rng.below(10) {
                    0 | 1 => tq - rng.range(1, 8) as i32, // already expired at the query time
                    2 | 3 => tq,                           // expiration == query time
                    4 => tq + 1,
                    _ => 1_000_000,
                };
                let (a, b) = if template % 3 == 0 || rng.chance(85) { (p1, p1) } else { (p1, (p1 + rng.range(0, 3)).min(hi)) };
                ops.push(Op::S(SOp::Ins { a, b, id: next_id, e }));
                next_id += 1;
                if rng.chance(4) {
                    ops.push(Op::S(SOp::Ins { a: p2, b: p2, id: next_id, e: if rng.chance(50) { tq - 5 } else { tq } }));
                    next_id += 1;
                }
                // queries around the sizes at which a growing Vec is exactly full, and now and then
                let near_pow2 = (i + 1).is_power_of_two() || (i + 2).is_power_of_two() || i.is_power_of_two();
                if (i >= 120 && near_pow2) || i % 97 == 96 {
                    let q = match rng.below(4) {
                        0 => whole(tq, -1),
                        1 => Op::S(SOp::Query { a: p1, b: p1, t: tq, n: -1 }),
                        2 => Op::S(SOp::Query { a: p1, b: p2, t: tq, n: -1 }),
                        _ => whole(tq, rng.range(1, 5)),
                    };
                    ops.push(q.clone());
                    if rng.chance(60) {
                        ops.push(q); // the same query again at the same time
                    }
                }
            }
            ops.push(whole(tq, -1));
            ops.push(whole(tq, -1));
            ops.push(Op::S(SOp::Query { a: p2, b: p2, t: tq, n: -1 }));
            ops.push(whole(tq + 1, -1));
            ops.push(whole(tq + 2, -1));
        }
        _ => {
            // thousands of expired copies met by one query
            let total = (*rng.pick(&[4200usize, 6000])).min(limit.max(4200));
            for i in 0..total {
                let a = lo + rng.range(0, len - 1);
                let b = (a + rng.range(0, len / 4)).min(hi);
                let e = if i % 500 == 7 { 1_000_000 } else { 5 };
                ops.push(Op::S(SOp::Ins { a, b, id: next_id, e }));
                next_id += 1;
            }
            ops.push(whole(10, -1));
            ops.push(whole(10, -1));
            ops.push(whole(11, 3));
        }
    }
    History { coll: Coll::Seg, params: vec![lo, hi], ops, twin: None, inject: None }
}

// ---------------------------------------------------------------------------------------------
// tall, thin trees: found by search against the implementation itself

use crate::types::{MKey, SVal};
use i_tree::set::sort::SetCollection;
use i_tree::set::tree::SetTree;
use i_tree::EMPTY_REF;

/// (entries, height, longest successor / predecessor walk of a node with two children) of the set
/// tree built by the given insertions (true) and removals (false)
fn thin_metrics(ops: &[(bool, i32)]) -> (usize, usize, usize, i32) {
    let mut t: SetTree<MKey, SVal> = SetTree::new(8);
    for (ins, k) in ops {
        if *ins {
            t.insert(SVal { key: MKey(*k), payload: String::new() });
        } else {
            t.delete(&MKey(*k));
        }
    }
    let (root, nodes, _, _) = t.verif_snapshot();
    let mut n = 0usize;
    let mut height = 0usize;
    let mut walk = 0usize;
    let mut walk_key = 0i32;
    let mut stack: Vec<(u32, usize)> = vec![(root, 1)];
    while let Some((i, d)) = stack.pop() {
        if i == EMPTY_REF || i as usize >= nodes.len() || n > nodes.len() {
            continue;
        }
        n += 1;
        height = height.max(d);
        let (_, l, r, _) = nodes[i as usize];
        if l != EMPTY_REF && r != EMPTY_REF {
            let mut c = r;
            let mut steps = 1;
            while (c as usize) < nodes.len() && nodes[c as usize].1 != EMPTY_REF && steps < 200 {
                c = nodes[c as usize].1;
                steps += 1;
            }
            if steps > walk {
                walk = steps;
                walk_key = t.verif_entity(i).key.0;
            }
            let mut c = l;
            let mut steps = 1;
            while (c as usize) < nodes.len() && nodes[c as usize].2 != EMPTY_REF && steps < 200 {
                c = nodes[c as usize].2;
                steps += 1;
            }
            if steps > walk {
                walk = steps;
                walk_key = t.verif_entity(i).key.0;
            }
        }
        stack.push((l, d + 1));
        stack.push((r, d + 1));
    }
    (n, height, walk, walk_key)
}

/// A red-black tree is at most 2*log2(n+1) high, and only trees thinned out by removals get near
/// that bound for their size: insert a run of keys, then greedily remove the key whose removal keeps
/// the tree highest (and its successor walks longest) for its size, evaluated on the implementation
/// itself; then probe and remove every remaining entry.  Returns the history for the set tree; the
/// caller derives the map / list variants.
pub fn gen_thin(rng: &mut Rng, coll: Coll) -> History {
    let n0 = *rng.pick(&[64usize, 100, 150, 220]);
    let target = *rng.pick(&[12usize, 20, 30, 45]);
    let mut seq: Vec<(bool, i32)> = Vec::new();
    let keys: Vec<i32> = match rng.below(3) {
        0 => (0..n0 as i32).collect(),
        1 => (0..n0 as i32).rev().collect(),
        _ => (0..n0 as i32).map(|i| if i % 2 == 0 { i / 2 } else { n0 as i32 - 1 - i / 2 }).collect(),
    };
    for k in &keys {
        seq.push((true, *k));
    }
    let mut remaining: Vec<i32> = keys.clone();
    // stop as soon as some node's successor / predecessor walk exceeds log2(n+1)+1 by two, or at
    // the target size
    let mut deep_key: Option<i32> = None;
    while remaining.len() > target {
        let mut best: Option<(usize, usize, usize, i32)> = None; // (score, index in remaining, walk, key)
        let tries = remaining.len().min(48);
        for _ in 0..tries {
            let idx = rng.below(remaining.len() as u64) as usize;
            seq.push((false, remaining[idx]));
            let (_, h, w, wk) = thin_metrics(&seq);
            seq.pop();
            let score = w * 1000 + h * 10 + rng.below(10) as usize;
            if best.map_or(true, |(s, _, _, _)| score > s) {
                best = Some((score, idx, w, wk));
            }
        }
        let (_, idx, w, wk) = best.unwrap();
        seq.push((false, remaining.swap_remove(idx)));
        let n = remaining.len();
        let log = (usize::BITS - 1 - (n + 1).leading_zeros()) as usize;
        if w > log + 2 {
            deep_key = Some(wk);
            break;
        }
        deep_key = Some(wk);
    }
    let mut ops: Vec<Op> = Vec::new();
    let mut val: i64 = 1;
    for (ins, k) in &seq {
        if *ins {
            ops.push(Op::M(MOp::Ins(*k, val)));
            val += 1;
        } else {
            ops.push(Op::M(MOp::Del(*k)));
        }
    }
    let is_set = coll == Coll::SetTree;
    remaining.sort();
    let probe_all = |ops: &mut Vec<Op>, rem: &Vec<i32>| {
        for k in rem {
            ops.push(Op::M(MOp::Get(*k)));
            ops.push(Op::M(MOp::First(*k)));
            if is_set {
                ops.push(Op::M(MOp::After(*k)));
                ops.push(Op::M(MOp::Before(*k)));
            }
        }
        if is_set {
            if let (Some(a), Some(b)) = (rem.first(), rem.last()) {
                ops.push(Op::M(MOp::WalkF(*a)));
                ops.push(Op::M(MOp::WalkB(*b)));
            }
        }
    };
    probe_all(&mut ops, &remaining);
    // first the node whose successor (or predecessor) lies deepest below it
    if let Some(dk) = deep_key {
        if let Some(pos) = remaining.iter().position(|k| *k == dk) {
            remaining.remove(pos);
            ops.push(Op::M(MOp::Del(dk)));
            probe_all(&mut ops, &remaining);
        }
    }
    // then the other entries one by one, from the middle outwards
    while !remaining.is_empty() {
        if remaining.len() > 60 {
            // (an early stop can leave a larger tree: thin it without probing everything each time)
            let idx = rng.below(remaining.len() as u64) as usize;
            let k = remaining.remove(idx);
            ops.push(Op::M(MOp::Del(k)));
            ops.push(Op::M(MOp::Get(k)));
            continue;
        }
        let idx = match rng.below(3) {
            0 => remaining.len() / 2,
            1 => rng.below(remaining.len() as u64) as usize,
            _ => remaining.len() / 3,
        };
        let k = remaining.remove(idx);
        ops.push(Op::M(if rng.chance(70) { MOp::Del(k) } else { MOp::DelIdx(k) }));
        probe_all(&mut ops, &remaining);
    }
    History { coll, params: vec![8], ops, twin: None, inject: None }
}

// ---------------------------------------------------------------------------------------------
// "fan": random mid-size states with EVERY one-step continuation tried from each

/// map / set: a random history that leaves 10..40 entries, then one history per stored key that
/// removes it (by key / through its handle) and per gap that inserts into it, each followed by a
/// look-up of every key (and the neighbour steps for the set).  A defect that needs one particular
/// node of one particular shape gets as many chances per state as the state has nodes, and the
/// states carry the hidden history (slot numbers, stale sentinel fields) that a closure over shapes
/// does not.
pub fn gen_fan_mapset(rng: &mut Rng, coll: Coll, pairs: bool, out: &mut Vec<History>) {
    let is_set = coll == Coll::SetTree;
    let universe: i64 = *rng.pick(&[24, 40, 64]);
    let target = if pairs { rng.range(8, 18) as usize } else { rng.range(9, 36) as usize };
    let mut reference: BTreeMap<i32, i64> = BTreeMap::new();
    let mut prefix: Vec<Op> = Vec::new();
    let mut val: i64 = 1;
    // grow beyond the target, shrink back towards it, with look-ups in between
    let over = target + rng.range(0, 12) as usize;
    let mut steps = 0;
    while steps < 400 && (reference.len() < over.min(universe as usize - 2)) {
        steps += 1;
        let k = rng.range(0, universe - 1) as i32;
        if rng.chance(78) {
            if !reference.contains_key(&k) {
                reference.insert(k, val);
                prefix.push(Op::M(MOp::Ins(k, val)));
                val += 1;
            }
        } else if rng.chance(60) {
            if !reference.is_empty() {
                let idx = rng.below(reference.len() as u64) as usize;
                let kk = *reference.keys().nth(idx).unwrap();
                reference.remove(&kk);
                prefix.push(Op::M(if rng.chance(50) { MOp::Del(kk) } else { MOp::DelIdx(kk) }));
            }
        } else {
            prefix.push(Op::M(MOp::Get(k)));
        }
    }
    while reference.len() > target {
        let idx = rng.below(reference.len() as u64) as usize;
        let kk = *reference.keys().nth(idx).unwrap();
        reference.remove(&kk);
        prefix.push(Op::M(MOp::Del(kk)));
        if rng.chance(30) {
            let g = rng.range(0, universe - 1) as i32;
            prefix.push(Op::M(MOp::Get(g)));
        }
    }
    let keys: Vec<i32> = reference.keys().copied().collect();
    let probes = |ops: &mut Vec<Op>, ks: &[i32]| {
        for k in ks {
            ops.push(Op::M(MOp::Get(*k)));
            if is_set {
                ops.push(Op::M(MOp::After(*k)));
                ops.push(Op::M(MOp::Before(*k)));
            } else {
                ops.push(Op::M(MOp::First(*k)));
            }
        }
    };
    let mk = |ops: Vec<Op>| History { coll, params: vec![8], ops, twin: None, inject: None };
    for (i, k) in keys.iter().enumerate() {
        let mut ops = prefix.clone();
        // sometimes the entry is looked up (or its neighbour removed) just before
        match rng.below(4) {
            0 => ops.push(Op::M(MOp::Get(*k))),
            1 if i + 1 < keys.len() => ops.push(Op::M(MOp::Get(keys[i + 1]))),
            _ => {}
        }
        ops.push(Op::M(if i % 2 == 0 { MOp::Del(*k) } else { MOp::DelIdx(*k) }));
        let mut rest: Vec<i32> = keys.clone();
        rest.remove(i);
        // one more step on a neighbour, then everything is looked up
        if i < rest.len() && rng.chance(50) {
            let nk = rest[i];
            ops.push(Op::M(MOp::Get(nk)));
            ops.push(Op::M(MOp::Del(nk)));
            ops.push(Op::M(MOp::Get(nk)));
            rest.remove(i);
        }
        probes(&mut ops, &rest);
        // handles on what is left, then insertions (a handle on each new entry too): a slot that the
        // removal put on the free list twice, or a live slot it freed, shows here
        for k in rest.iter().take(24) {
            ops.push(Op::M(MOp::Hold(*k)));
        }
        for j in 0..3 {
            let nk = universe as i32 + 5 + j;
            ops.push(Op::M(MOp::Ins(nk, 5000 + j as i64)));
            ops.push(Op::M(MOp::Chk));
            ops.push(Op::M(MOp::Hold(nk)));
        }
        ops.push(Op::M(MOp::Chk));
        out.push(mk(ops));
    }
    // every ORDERED PAIR of removals from the smaller states: whatever the first one leaves behind
    // (a stale field of the sentinel, a freed slot) is met by the second
    if pairs && keys.len() <= 18 {
        for (i, k1) in keys.iter().enumerate() {
            for (j, k2) in keys.iter().enumerate() {
                if i == j {
                    continue;
                }
                let mut ops = prefix.clone();
                ops.push(Op::M(MOp::Del(*k1)));
                ops.push(Op::M(if (i + j) % 3 == 0 { MOp::DelIdx(*k2) } else { MOp::Del(*k2) }));
                let rest: Vec<i32> = keys.iter().copied().filter(|k| k != k1 && k != k2).collect();
                probes(&mut ops, &rest);
                out.push(mk(ops));
            }
        }
        return;
    }
    for g in 0..=keys.len() {
        let lo = if g == 0 { -1 } else { keys[g - 1] };
        let hi = if g == keys.len() { universe as i32 } else { keys[g] };
        if hi - lo < 2 {
            continue;
        }
        let k = lo + 1 + (rng.below((hi - lo - 1) as u64) as i32);
        let mut ops = prefix.clone();
        ops.push(Op::M(MOp::Ins(k, 7777)));
        let mut all = keys.clone();
        all.insert(g, k);
        probes(&mut ops, &all);
        out.push(mk(ops));
    }
}

/// expiring-key tree: a random state of 8..40 stored entries with expirations 5 / 10 / 15 / far (a few
/// queries before anything expires), then EVERY query kind for EVERY key at each of the times
/// 5, 10, 15 and every insertion of an absent key, each on an independent copy of that state: each
/// of them is the first operation to meet the expired entries
pub fn gen_fan_key(rng: &mut Rng, out: &mut Vec<History>) {
    let universe: i32 = *rng.pick(&[24, 40, 64]);
    let n = rng.range(8, 40) as usize;
    let mut ops: Vec<Op> = Vec::new();
    let mut reference: BTreeMap<i32, i32> = BTreeMap::new();
    let mut val: i64 = 1;
    let far = 1_000_000;
    let mix = rng.below(4);
    // two states in five are sorted runs (ascending / descending insertion order), which give the
    // all-black subtrees under which a removal repair climbs several levels
    let run = rng.below(5);
    let mut next_run: i32 = if run == 0 { 0 } else { universe - 1 };
    while reference.len() < n.min(universe as usize - 2) {
        let k = match run {
            0 => {
                next_run += 1;
                next_run - 1
            }
            1 => {
                next_run -= 1;
                next_run + 1
            }
            _ => rng.range(0, universe as i64 - 1) as i32,
        };
        if reference.contains_key(&k) {
            continue;
        }
        let e = match mix {
            0 => *rng.pick(&[5, 10, 15, far, far]),
            1 => *rng.pick(&[5, far, far, far]),
            2 => if rng.chance(6) { 5 } else { far },
            _ => *rng.pick(&[5, 5, 10, 10, 15, far]),
        };
        reference.insert(k, e);
        ops.push(Op::K(KOp::Ins { k, e, v: val, t: 0 }));
        val += 1;
        if rng.chance(8) {
            ops.push(Op::K(KOp::Get(rng.range(0, 4) as i32, k)));
        }
    }
    for t in [5, 10, 15] {
        for k in -1..=universe {
            for kind in 0..5 {
                let q = match kind {
                    0 => KOp::Get(t, k),
                    1 => KOp::LessEq(t, k),
                    2 => KOp::Less(t, k),
                    3 => KOp::By(t, k),
                    _ => KOp::Th(t, k),
                };
                ops.push(Op::Fork(Box::new(Op::K(q))));
            }
            if k >= 0 && k < universe && reference.get(&k).map_or(true, |e| *e <= t) {
                ops.push(Op::Fork(Box::new(Op::K(KOp::Ins { k, e: far, v: 9000 + k as i64, t }))));
            }
        }
        ops.push(Op::Fork(Box::new(Op::K(KOp::Export(t)))));
    }
    // two steps in a row from the same state (each pair its own history): an operation that purges or
    // inserts, then the ordered export and a look-up - what the first one did to the arena, the free
    // list or the order of the keys is seen by the second
    let prefix_len = ops.iter().position(|o| matches!(o, Op::Fork(_))).unwrap_or(ops.len());
    let prefix: Vec<Op> = ops[..prefix_len].to_vec();
    let stored: Vec<i32> = reference.keys().copied().collect();
    for t in [5, 10, 15] {
        for _ in 0..8 {
            let k = *rng.pick(&stored);
            let mut o2 = prefix.clone();
            o2.push(Op::K(match rng.below(3) {
                0 => KOp::Get(t, k),
                1 => KOp::LessEq(t, k),
                _ => KOp::Less(t, k),
            }));
            o2.push(Op::K(KOp::Export(t)));
            o2.push(Op::K(KOp::Get(t, k)));
            out.push(History { coll: Coll::KeyTree, params: vec![8], ops: o2, twin: None, inject: None });
        }
        for _ in 0..8 {
            let k = rng.range(0, universe as i64 - 1) as i32;
            if reference.get(&k).map_or(true, |e| *e <= t) {
                let mut o2 = prefix.clone();
                o2.push(Op::K(KOp::Ins { k, e: far, v: 9000 + k as i64, t }));
                o2.push(Op::K(KOp::Export(t)));
                o2.push(Op::K(KOp::Get(t, k)));
                o2.push(Op::K(KOp::LessEq(t, k)));
                out.push(History { coll: Coll::KeyTree, params: vec![8], ops: o2, twin: None, inject: None });
            }
        }
    }
    out.push(History { coll: Coll::KeyTree, params: vec![8], ops, twin: None, inject: None });
    // now and then a PERFECT tree: keys inserted level by level, the bottom level expires at 5, every
    // expired entry is met by a look-up at time 10, with an export after each of them: the stored
    // tree passes through the perfectly balanced all-black shapes
    if rng.chance(15) {
        let levels = *rng.pick(&[3u32, 4, 5]);
        let n = (1i32 << levels) - 1;
        let mut order: Vec<i32> = Vec::new();
        for l in 0..levels {
            let step = (n + 1) >> l;
            let mut k = step / 2;
            while k <= n {
                order.push(k);
                k += step;
            }
        }
        let mut o3: Vec<Op> = Vec::new();
        for (i, k) in order.iter().enumerate() {
            let bottom = k % 2 == 1;
            o3.push(Op::K(KOp::Ins { k: *k, e: if bottom { 5 } else { far }, v: *k as i64 + 1, t: 0 }));
            let _ = i;
        }
        o3.push(Op::K(KOp::Export(0)));
        let mut k = 1;
        while k <= n {
            o3.push(Op::K(KOp::Get(10, k)));
            o3.push(Op::K(KOp::Export(10)));
            k += 2;
        }
        o3.push(Op::K(KOp::Export(10)));
        out.push(History { coll: Coll::KeyTree, params: vec![8], ops: o3, twin: None, inject: None });
    }
}

/// panic injection into EVERY one-step continuation of a mid-size state: a state of 12..40 entries
/// (an ascending / descending run, which makes the all-black subtrees under which a removal repair
/// climbs several levels, or a random mix), then for every stored key the removal (set / map trees)
/// or, for the expiring-key tree, a query at the time at which that key has expired, repeated with a
/// panic injected at each user-callback invocation of that LAST operation
pub fn gen_fan_inject(rng: &mut Rng, which: u64, out: &mut Vec<History>) {
    // runs in ascending / descending order make the all-black subtrees under which a repair climbs
    // several levels (three levels need 23 and more entries): they are half of the states
    // the order cycles with the state number: every fourth state is an ascending run of 30, every
    // fourth a descending one, the others random mixes of 12..36
    let (n, order) = match (which / 3) % 4 {
        0 => (30usize, 0),
        1 => (30usize, 1),
        _ => (rng.range(12, 36) as usize, 2 + rng.below(2)),
    };
    let keys: Vec<i32> = match order {
        0 => (1..=n as i32).collect(),
        1 => (1..=n as i32).rev().collect(),
        2 => (1..=n as i32).map(|i| if i % 2 == 0 { i / 2 } else { n as i32 + 1 - (i + 1) / 2 }).collect(),
        _ => shuffled(rng, n, 1).into_iter().map(|k| k + 1).collect(),
    };
    let limit_per_state = 400usize;
    let mut emitted = 0usize;
    match which % 3 {
        0 | 1 => {
            let coll = if which % 3 == 0 { Coll::SetTree } else { Coll::MapTree };
            let mut prefix: Vec<Op> = keys.iter().map(|k| Op::M(MOp::Ins(*k, *k as i64 + 100))).collect();
            // a few removals so that the shape is not only what insertions make
            let mut present = keys.clone();
            for _ in 0..rng.below(4) {
                let idx = rng.below(present.len() as u64) as usize;
                prefix.push(Op::M(MOp::Del(present.remove(idx))));
            }
            let (_, c0) = crate::exec::run_silent(&History { coll, params: vec![8], ops: prefix.clone(), twin: None, inject: None });
            let mut order = present.clone();
            order.sort();
            for k in order {
                let mut ops = prefix.clone();
                ops.push(Op::M(MOp::Del(k)));
                let h = History { coll, params: vec![8], ops, twin: None, inject: None };
                let (_, c1) = crate::exec::run_silent(&h);
                for idx in c0..c1 {
                    if emitted >= limit_per_state {
                        break;
                    }
                    let mut hk = h.clone();
                    // after the interrupted removal: look at everything
                    for q in present.iter().step_by(3) {
                        hk.ops.push(Op::M(MOp::Get(*q)));
                    }
                    hk.inject = Some(idx);
                    out.push(hk);
                    emitted += 1;
                }
            }
        }
        _ => {
            // expiring-key tree: EVERY key in turn is the one that has expired (at 5) when the last
            // operation (a look-up of that key at time 10, or an insertion) runs; the others live on
            let limit_per_state = 1500usize;
            for x in keys.iter() {
                let prefix: Vec<Op> = keys
                    .iter()
                    .map(|k| Op::K(KOp::Ins { k: *k, e: if k == x { 5 } else { 90 }, v: *k as i64 * 10, t: 0 }))
                    .collect();
                let (_, c0) = crate::exec::run_silent(&History { coll: Coll::KeyTree, params: vec![8], ops: prefix.clone(), twin: None, inject: None });
                for kind in 0..2 {
                    let mut ops = prefix.clone();
                    ops.push(Op::K(match kind {
                        0 => KOp::Get(10, *x),
                        _ => KOp::LessEq(10, *x),
                    }));
                    let h = History { coll: Coll::KeyTree, params: vec![8], ops, twin: None, inject: None };
                    let (_, c1) = crate::exec::run_silent(&h);
                    for idx in c0..c1 {
                        if emitted >= limit_per_state {
                            break;
                        }
                        let mut hk = h.clone();
                        for q in keys.iter().step_by(3) {
                            hk.ops.push(Op::K(KOp::Get(45, *q)));
                        }
                        hk.ops.push(Op::K(KOp::Ins { k: 2000, e: 90, v: 8, t: 45 }));
                        hk.ops.push(Op::K(KOp::Get(45, 2000)));
                        hk.ops.push(Op::K(KOp::Export(45)));
                        hk.inject = Some(idx);
                        out.push(hk);
                        emitted += 1;
                    }
                }
            }
        }
    }
}

/// segment tree: a DENSE state (one to three values stored exactly at almost every place of the heap,
/// so that every chunk on every root-to-leaf path is occupied; expirations below / at / above the
/// query times; a few values spread over several places), then, for a few query ranges, a first query
/// dropped after EVERY possible number of values, a second query at the same or a later time, and a
/// whole-domain query.  Each combination is its own history.
pub fn gen_fan_seg(rng: &mut Rng, out: &mut Vec<History>) {
    let (lo, bits): (i64, u32) = *rng.pick(&[(0, 5), (0, 6), (-16, 5), (100, 5)]);
    let len: i64 = 1 << bits;
    let hi = lo + len - 1;
    let far = 1_000_000;
    let mut prefix: Vec<Op> = Vec::new();
    let mut id: i64 = 1;
    let levels = 6u32.min(bits + 1);
    // variant B: everything on the path to the focus outlives the second query (25) while the value
    // spread over several places that ends AT the focus (inserted first below) dies at 20
    let variant_b = rng.chance(50);
    let focus = lo + rng.range(1, len - 1); // the path to this point is the most densely occupied
    let mut spread: Vec<(i64, i64)> = Vec::new();
    if variant_b {
        let a = (focus - rng.range(1, 3)).max(lo);
        prefix.push(Op::S(SOp::Ins { a, b: focus, id, e: 20 }));
        spread.push((a, focus));
        id += 1;
    }
    for l in 0..levels {
        let w = len >> l;
        if w == 0 {
            break;
        }
        for j in 0..(1i64 << l) {
            let on_path = lo + j * w <= focus && focus <= lo + (j + 1) * w - 1;
            let copies = if on_path { rng.range(1, 3) } else if rng.chance(60) { 1 } else { 0 };
            for _ in 0..copies {
                let e = if variant_b && on_path { *rng.pick(&[30, far, far, 3]) } else { *rng.pick(&[3, 10, 10, 20, 30, far]) };
                prefix.push(Op::S(SOp::Ins { a: lo + j * w, b: lo + (j + 1) * w - 1, id, e }));
                id += 1;
            }
        }
    }
    for _ in 0..rng.range(2, 6) {
        let a = lo + rng.range(0, len - 1);
        let b = (a + rng.range(1, len / 2)).min(hi);
        let e = *rng.pick(&[3, 10, 20, 20, 30, far]);
        prefix.push(Op::S(SOp::Ins { a, b, id, e }));
        spread.push((a, b));
        id += 1;
    }
    if rng.chance(40) {
        prefix.push(Op::S(SOp::Query { a: lo, b: hi, t: *rng.pick(&[2, 5]), n: -1 }));
    }
    let near = (focus + rng.range(1, 3)).min(hi);
    let mut ranges: Vec<(i64, i64)> = vec![(focus, focus), (focus, near), (lo, hi), (lo + rng.range(0, len / 2), lo + len / 2 + rng.range(0, len / 2 - 1))];
    // the first query may also be exactly the range of a value stored at several places, the second
    // one its last (or first) point only
    let (sa, sb) = if variant_b { spread[0] } else { *rng.pick(&spread) };
    ranges.push((sa, sb));
    let t1 = 10;
    for (a1, b1) in &ranges {
        // how many values the complete first query yields on the implementation
        let mut probe = prefix.clone();
        probe.push(Op::S(SOp::Query { a: *a1, b: *b1, t: t1, n: -1 }));
        let (text, _) = crate::exec::run_answers(&History { coll: Coll::Seg, params: vec![lo, hi], ops: probe, twin: None, inject: None });
        let total = text.split_whitespace().count() as i64;
        for n1 in (0..=total.min(24)).chain(std::iter::once(-1)) {
            for (a2, b2) in [(*a1, *b1), (focus, focus), (lo, hi), (*b1, *b1), (*a1, *a1)] {
                for t2 in [t1, 25] {
                    let mut ops = prefix.clone();
                    ops.push(Op::S(SOp::Query { a: *a1, b: *b1, t: t1, n: n1 }));
                    ops.push(Op::S(SOp::Query { a: a2, b: b2, t: t2, n: -1 }));
                    ops.push(Op::S(SOp::Query { a: lo, b: hi, t: t2, n: -1 }));
                    out.push(History { coll: Coll::Seg, params: vec![lo, hi], ops, twin: None, inject: None });
                }
            }
        }
    }
}
