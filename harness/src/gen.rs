//! Generators of in-contract histories.  Each keeps its own reference state so that every
//! generated operation respects the preconditions of the collections (distinct live keys,
//! non-decreasing time, expiration >= insertion time, in-domain ranges, fresh handles).

use crate::ops::*;
use crate::rng::Rng;
use std::collections::BTreeMap;

pub fn generate(profile: &str, seed: u64, n: usize, size: usize) -> Vec<History> {
    let mut rng = Rng::new(seed);
    let mut out = Vec::new();
    match profile {
        "map" => {
            for _ in 0..n {
                let h = gen_mapset(&mut rng, Coll::MapTree, size);
                out.push(as_list(&h, Coll::MapList));
                out.push(h);
            }
        }
        "set" => {
            for _ in 0..n {
                let h = gen_mapset(&mut rng, Coll::SetTree, size);
                out.push(as_list(&h, Coll::SetList));
                out.push(h);
            }
        }
        "key" => {
            for _ in 0..n {
                let h = gen_key(&mut rng, size);
                let mut l = h.clone();
                l.coll = Coll::KeyList;
                out.push(l);
                out.push(h);
            }
        }
        "seg" => {
            for _ in 0..n {
                out.push(gen_seg(&mut rng, size));
            }
        }
        // exhaustive closures over small universes (size = number of keys)
        "mapx" => out = crate::exhaust::gen_mapsetx(Coll::MapTree, size.max(1) as i32),
        "setx" => out = crate::exhaust::gen_mapsetx(Coll::SetTree, size.max(1) as i32),
        "keyx" => out = crate::exhaust::gen_keyx(size.max(1) as i32, 3),
        "hold" => out = crate::exhaust::gen_hold(size.max(1) as i32),
        // every coloured shape of up to `size` nodes, every single insertion / removal from it;
        // sharded: n = number of shards (seed = this shard)
        "mapshape" => out = crate::exhaust::gen_shapex(Coll::MapTree, size.max(1), n.max(1), seed as usize),
        "setshape" => out = crate::exhaust::gen_shapex(Coll::SetTree, size.max(1), n.max(1), seed as usize),
        // finite sweeps, sharded: n = number of shards, size = this shard (deep layout: size >= n)
        "seg32" => out = shard(crate::exhaust::gen_seg32(), n, size),
        "layout" => out = shard(crate::exhaust::gen_layout(size >= n.max(1)), n, size),
        // long insert / delete / expiry / clear churn on the three trees, all capacity hints
        "churn" => {
            for i in 0..n {
                let mut a = gen_mapset(&mut rng, Coll::MapTree, size);
                let mut b = gen_mapset(&mut rng, Coll::SetTree, size);
                let mut c = gen_key(&mut rng, size);
                let cap = if i % 2 == 0 { CAPS[(i / 2) % CAPS.len()] } else { pick_cap(&mut rng) };
                a.params = vec![cap];
                b.params = vec![cap];
                c.params = vec![cap];
                out.push(a);
                out.push(b);
                out.push(c);
            }
        }
        // ordered export from trees of every size up to `size`, three insertion orders
        "export" => out = gen_export(&mut rng, size),
        // cleared-versus-fresh twins on all seven collections
        "twin" => {
            for _ in 0..n {
                gen_twins(&mut rng, size, &mut out);
            }
        }
        // panic injection at every user-callback invocation of short histories
        "inject" => {
            for _ in 0..n {
                gen_inject(&mut rng, size, &mut out);
            }
        }
        // extreme numeric values and very wide domains
        "mapedge" => {
            for _ in 0..n {
                let h = gen_mapset_edge(&mut rng, Coll::MapTree, size);
                out.push(as_list(&h, Coll::MapList));
                out.push(h);
                let h = gen_mapset_edge(&mut rng, Coll::SetTree, size);
                out.push(as_list(&h, Coll::SetList));
                out.push(h);
            }
        }
        "keyedge" => {
            for _ in 0..n {
                let h = gen_key_edge(&mut rng, size);
                let mut l = h.clone();
                l.coll = Coll::KeyList;
                out.push(l);
                out.push(h);
            }
        }
        "segwide" => {
            for _ in 0..n {
                out.push(gen_seg_wide(&mut rng, size));
            }
        }
        // large states: big fills, exact fills, clears of large collections, mass expiry, big hints
        "big" => {
            for i in 0..n {
                let t = seed + i as u64;
                let h = crate::big::gen_big_mapset(&mut rng, Coll::MapTree, size, t);
                out.push(as_list(&h, Coll::MapList));
                out.push(h);
                let h = crate::big::gen_big_mapset(&mut rng, Coll::SetTree, size, t);
                out.push(as_list(&h, Coll::SetList));
                out.push(h);
                let h = crate::big::gen_big_key(&mut rng, size, t);
                let mut l = h.clone();
                l.coll = Coll::KeyList;
                out.push(l);
                out.push(h);
            }
        }
        "bigmap" => {
            for i in 0..n {
                let h = crate::big::gen_big_mapset(&mut rng, Coll::MapTree, size, seed + i as u64);
                out.push(as_list(&h, Coll::MapList));
                out.push(h);
            }
        }
        "bigset" => {
            for i in 0..n {
                let h = crate::big::gen_big_mapset(&mut rng, Coll::SetTree, size, seed + i as u64);
                out.push(as_list(&h, Coll::SetList));
                out.push(h);
            }
        }
        "bigkey" => {
            for i in 0..n {
                let h = crate::big::gen_big_key(&mut rng, size, seed + i as u64);
                let mut l = h.clone();
                l.coll = Coll::KeyList;
                out.push(l);
                out.push(h);
            }
        }
        "thin" => {
            for _ in 0..n {
                let h = crate::big::gen_thin(&mut rng, Coll::SetTree);
                out.push(as_list(&h, Coll::SetList));
                let mut m = h.clone();
                m.coll = Coll::MapTree;
                m.ops.retain(|o| !matches!(o, Op::M(MOp::After(_)) | Op::M(MOp::Before(_)) | Op::M(MOp::WalkF(_)) | Op::M(MOp::WalkB(_))));
                out.push(m);
                out.push(h);
            }
        }
        // random mid-size states with every one-step continuation (size 2: every ordered pair of
        // removals from the smaller states); every fourth history also on the list variant
        "fanmap" | "fanset" => {
            let coll = if profile == "fanmap" { Coll::MapTree } else { Coll::SetTree };
            let lcoll = if profile == "fanmap" { Coll::MapList } else { Coll::SetList };
            for _ in 0..n {
                let from = out.len();
                crate::big::gen_fan_mapset(&mut rng, coll, size == 2, &mut out);
                let lists: Vec<History> = out[from..].iter().step_by(4).map(|h| as_list(h, lcoll)).collect();
                out.extend(lists);
            }
        }
        "fankey" => {
            for _ in 0..n {
                let from = out.len();
                crate::big::gen_fan_key(&mut rng, &mut out);
                let lists: Vec<History> = out[from..]
                    .iter()
                    .map(|h| {
                        let mut l = h.clone();
                        l.coll = Coll::KeyList;
                        l
                    })
                    .collect();
                out.extend(lists);
            }
        }
        "bigseg" => {
            for i in 0..n {
                out.push(crate::big::gen_big_seg(&mut rng, size, seed + i as u64));
            }
        }
        "bigtwin" => {
            for i in 0..n {
                crate::big::gen_big_twins(&mut rng, size, seed + i as u64, &mut out);
            }
        }
        "fanseg" => {
            for _ in 0..n {
                crate::big::gen_fan_seg(&mut rng, &mut out);
            }
        }
        "faninject" => {
            for i in 0..n {
                crate::big::gen_fan_inject(&mut rng, seed + i as u64, &mut out);
            }
        }
        "biginject" => {
            // the kind of large state cycles with the seed: batches of three with consecutive seeds
            // cover all six
            for i in 0..n {
                crate::big::gen_big_inject(&mut rng, size, 3 * seed + i as u64, &mut out);
            }
        }
        p => panic!("unknown profile {p}"),
    }
    out
}

fn shard(all: Vec<History>, n: usize, k: usize) -> Vec<History> {
    let n = n.max(1);
    all.into_iter().enumerate().filter(|(i, _)| i % n == k % n).map(|(_, h)| h).collect()
}

fn gen_export(rng: &mut Rng, size: usize) -> Vec<History> {
    let mut out = Vec::new();
    for order in 0..3 {
        for coll in [Coll::KeyTree, Coll::KeyList] {
            if coll == Coll::KeyList && size > 20000 {
                continue; // Vec::insert at the front is quadratic
            }
            let mut ops = Vec::new();
            let mut keys: Vec<i32> = (0..size as i32).collect();
            match order {
                0 => {}
                1 => keys.reverse(),
                _ => {
                    for i in (1..keys.len()).rev() {
                        let j = rng.below(i as u64 + 1) as usize;
                        keys.swap(i, j);
                    }
                }
            }
            let mut next_check = 0usize;
            ops.push(Op::K(KOp::Export(0)));
            for (i, k) in keys.iter().enumerate() {
                // a third of the entries expire at 5: exports at 0 and at 5 differ
                let e = if i % 3 == 0 { 5 } else { 1_000_000 };
                ops.push(Op::K(KOp::Ins { k: *k, e, v: i as i64 + 1, t: 0 }));
                if i + 1 >= next_check {
                    ops.push(Op::K(KOp::Export(0)));
                    ops.push(Op::K(KOp::Export(5)));
                    next_check = if i < 70 { i + 2 } else { (i + 1) * 13 / 10 };
                }
            }
            ops.push(Op::K(KOp::Export(0)));
            ops.push(Op::K(KOp::Export(5)));
            out.push(History { coll, params: vec![pick_cap(rng)], ops, twin: None, inject: None });
        }
    }
    out
}

fn strip_holds(h: &mut History) {
    h.ops.retain(|o| !matches!(o, Op::M(MOp::Hold(_)) | Op::M(MOp::Chk)));
}

/// (history that ends its prefix with clear and then runs a suffix, fresh instance running the
/// same suffix); the runner compares the answers of the two suffix runs
fn gen_twins(rng: &mut Rng, size: usize, out: &mut Vec<History>) {
    let psize = if rng.chance(10) { 1 } else { size.max(2) };
    let colls = [Coll::MapTree, Coll::MapList, Coll::SetTree, Coll::SetList, Coll::KeyTree, Coll::KeyList, Coll::Seg];
    let coll = *rng.pick(&colls);
    let (mut pre, mut suf) = match coll {
        Coll::MapTree | Coll::MapList => (if rng.chance(25) { gen_mapset_edge(rng, Coll::MapTree, psize) } else { gen_mapset(rng, Coll::MapTree, psize) }, gen_mapset(rng, Coll::MapTree, size.max(2))),
        Coll::SetTree | Coll::SetList => (if rng.chance(25) { gen_mapset_edge(rng, Coll::SetTree, psize) } else { gen_mapset(rng, Coll::SetTree, psize) }, gen_mapset(rng, Coll::SetTree, size.max(2))),
        Coll::KeyTree | Coll::KeyList => (if rng.chance(35) { gen_key_edge(rng, psize) } else { gen_key(rng, psize) }, gen_key(rng, size.max(2))),
        Coll::Seg => {
            let p = gen_seg(rng, psize);
            let mut s = gen_seg(rng, size.max(2));
            // same domain for both
            while s.params != p.params {
                s = gen_seg(rng, size.max(2));
            }
            (p, s)
        }
    };
    strip_holds(&mut pre);
    strip_holds(&mut suf);
    if psize == 1 {
        pre.ops.clear(); // clear of a collection that was never used
    }
    pre.coll = coll;
    suf.coll = coll;
    let clear = match coll {
        Coll::MapTree | Coll::MapList | Coll::SetTree | Coll::SetList => Op::M(MOp::Clear),
        Coll::KeyTree | Coll::KeyList => Op::K(KOp::Clear),
        Coll::Seg => Op::S(SOp::Clear),
    };
    let mut a = pre.clone();
    a.ops.push(clear.clone());
    if rng.chance(20) {
        a.ops.push(clear.clone()); // repeated clear
    }
    let off = a.ops.len();
    // "every query returns the empty answer" right after the clear: the suffix starts with probes
    let probes: Vec<Op> = match coll {
        Coll::MapTree | Coll::MapList | Coll::SetTree | Coll::SetList => vec![Op::M(MOp::IsEmpty), Op::M(MOp::Get(3)), Op::M(MOp::First(1000))],
        Coll::KeyTree | Coll::KeyList => vec![Op::K(KOp::IsEmpty), Op::K(KOp::LessEq(0, 1000)), Op::K(KOp::Get(0, 3)), Op::K(KOp::Export(0))],
        Coll::Seg => vec![Op::S(SOp::Query { a: a.params[0], b: a.params[1], t: 0, n: -1 })],
    };
    let mut b = suf.clone();
    b.ops = probes.clone();
    b.ops.extend(suf.ops.iter().cloned());
    a.ops.extend(b.ops.iter().cloned());
    if coll != Coll::Seg {
        b.params = vec![pick_cap(rng)];
    }
    let idx = out.len();
    b.twin = Some((idx, off));
    out.push(a);
    out.push(b);
}

/// a short history followed by the same history once per user-callback invocation index, with a
/// panic injected at that invocation
fn gen_inject(rng: &mut Rng, size: usize, out: &mut Vec<History>) {
    let size = size.max(4);
    let colls = [Coll::MapTree, Coll::MapList, Coll::SetTree, Coll::SetList, Coll::KeyTree, Coll::KeyTree, Coll::KeyList, Coll::KeyList, Coll::Seg];
    let coll = *rng.pick(&colls);
    let mut h = match coll {
        Coll::MapTree | Coll::MapList => gen_mapset(rng, Coll::MapTree, size),
        Coll::SetTree | Coll::SetList => gen_mapset(rng, Coll::SetTree, size),
        Coll::KeyTree | Coll::KeyList => gen_key(rng, size),
        Coll::Seg => gen_seg(rng, size),
    };
    strip_holds(&mut h);
    h.coll = coll;
    let (_, calls) = crate::exec::run_silent(&h);
    out.push(h.clone());
    for k in 0..calls {
        let mut hk = h.clone();
        hk.inject = Some(k);
        out.push(hk);
    }
}

/// the same history for the list variant: handles are positions there, which insertions shift,
/// so the handle-stability operations (a tree-only property) are dropped
fn as_list(h: &History, coll: Coll) -> History {
    let mut l = h.clone();
    l.coll = coll;
    l.ops.retain(|o| !matches!(o, Op::M(MOp::Hold(_)) | Op::M(MOp::Chk)));
    l
}

const CAPS: [i64; 7] = [0, 1, 8, 9, 20, 64, 300];

/// capacity hint: half from the fixed set, a quarter small, a quarter around a power of two
fn pick_cap(rng: &mut Rng) -> i64 {
    match rng.below(4) {
        0 | 1 => *rng.pick(&CAPS),
        2 => rng.range(0, 48),
        _ => {
            let k = rng.range(1, 12);
            ((1i64 << k) + rng.range(-1, 1)).max(0)
        }
    }
}

fn probe_key(rng: &mut Rng, universe: i64) -> i32 {
    rng.range(-1, universe) as i32
}

fn gen_mapset(rng: &mut Rng, coll: Coll, size: usize) -> History {
    let is_set = coll == Coll::SetTree;
    let nops = if size == 0 { 60 } else { size };
    // small universes keep the tree churning around the same keys; large ones grow it
    let universe: i64 = *rng.pick(&[6, 12, 40, 200, 2000]);
    let mut reference: BTreeMap<i32, i64> = BTreeMap::new();
    let mut ops = Vec::with_capacity(nops);
    let mut next_val: i64 = 1;
    let mut held = 0usize;
    let grow_bias = rng.range(25, 60) as u64;
    for _ in 0..nops {
        let r = rng.below(100);
        if r < grow_bias {
            // insert an absent key
            let mut k = rng.range(0, universe - 1) as i32;
            let mut tries = 0;
            while reference.contains_key(&k) && tries < 8 {
                k = rng.range(0, universe - 1) as i32;
                tries += 1;
            }
            if reference.contains_key(&k) {
                // universe (nearly) full: delete instead
                reference.remove(&k);
                held = 0;
                ops.push(Op::M(MOp::Del(k)));
            } else {
                reference.insert(k, next_val);
                ops.push(Op::M(MOp::Ins(k, next_val)));
                next_val += 1;
                if held > 0 {
                    ops.push(Op::M(MOp::Chk));
                }
            }
        } else if r < grow_bias + 15 {
            // delete a present key (or an absent one, 1 in 5)
            if !reference.is_empty() && !rng.chance(20) {
                let idx = rng.below(reference.len() as u64) as usize;
                let k = *reference.keys().nth(idx).unwrap();
                reference.remove(&k);
                held = 0;
                ops.push(Op::M(MOp::Del(k)));
            } else {
                let k = probe_key(rng, universe);
                reference.remove(&k);
                held = 0;
                ops.push(Op::M(MOp::Del(k)));
            }
        } else if r < grow_bias + 22 {
            let k = probe_key(rng, universe);
            ops.push(Op::M(MOp::Get(k)));
        } else if r < grow_bias + 30 {
            let k = probe_key(rng, universe);
            ops.push(Op::M(match rng.below(3) {
                0 => MOp::First(k),
                1 => MOp::FirstBy(k),
                _ => MOp::FirstTh(k),
            }));
        } else if r < grow_bias + 34 {
            let k = probe_key(rng, universe);
            if let Some((&pk, _)) = reference.range(..=k).next_back() {
                reference.insert(pk, next_val);
            }
            ops.push(Op::M(MOp::Write(k, next_val)));
            next_val += 1;
        } else if r < grow_bias + 39 {
            let k = probe_key(rng, universe);
            if let Some((&pk, _)) = reference.range(..=k).next_back() {
                reference.remove(&pk);
            }
            held = 0;
            ops.push(Op::M(MOp::DelIdx(k)));
        } else if r < grow_bias + 40 {
            reference.clear();
            held = 0;
            ops.push(Op::M(MOp::Clear));
        } else if r < grow_bias + 42 {
            ops.push(Op::M(MOp::IsEmpty));
        } else if r < grow_bias + 46 {
            // take a handle to a stored entry and keep it across the following insertions
            if !reference.is_empty() {
                let idx = rng.below(reference.len() as u64) as usize;
                let k = *reference.keys().nth(idx).unwrap();
                held += 1;
                ops.push(Op::M(MOp::Hold(k)));
            }
        } else if is_set {
            let k = probe_key(rng, universe);
            ops.push(Op::M(match rng.below(8) {
                0 => MOp::WalkF(reference.keys().next().copied().unwrap_or(0)),
                1 => MOp::WalkB(reference.keys().next_back().copied().unwrap_or(0)),
                2 | 3 | 4 => MOp::After(k),
                _ => MOp::Before(k),
            }));
        } else {
            let k = probe_key(rng, universe);
            ops.push(Op::M(MOp::Get(k)));
        }
    }
    History { coll, params: vec![pick_cap(rng)], ops, twin: None, inject: None }
}

fn gen_key(rng: &mut Rng, size: usize) -> History {
    let nops = if size == 0 { 60 } else { size };
    let universe: i64 = *rng.pick(&[5, 10, 30, 120, 1000]);
    // key -> expiration of the entry inserted last (live iff exp > clock)
    let mut reference: BTreeMap<i32, i32> = BTreeMap::new();
    let mut clock: i32 = rng.range(0, 3) as i32;
    let mut ops = Vec::with_capacity(nops);
    let mut next_val: i64 = 1;
    let life: i64 = *rng.pick(&[2, 5, 20, 100]);
    let ins_bias = rng.range(30, 65) as u64;
    for _ in 0..nops {
        if rng.chance(25) {
            clock += rng.range(0, 2) as i32;
        }
        let r = rng.below(100);
        if r < ins_bias {
            // prefer re-inserting a key whose previous entry has expired (it may still be stored)
            let expired: Vec<i32> = reference.iter().filter(|(_, &e)| e <= clock).map(|(&k, _)| k).collect();
            let k = if !expired.is_empty() && rng.chance(30) {
                *rng.pick(&expired)
            } else {
                let mut k = rng.range(0, universe - 1) as i32;
                let mut tries = 0;
                while reference.get(&k).map_or(false, |&e| e > clock) && tries < 8 {
                    k = rng.range(0, universe - 1) as i32;
                    tries += 1;
                }
                k
            };
            if reference.get(&k).map_or(false, |&e| e > clock) {
                // universe full of live keys: let time pass instead
                clock += 1;
                ops.push(Op::K(KOp::LessEq(clock, k)));
                continue;
            }
            let e = match rng.below(10) {
                0 => clock, // expiration == insertion time: never visible
                1 => clock + 1,
                _ => clock + rng.range(1, life) as i32,
            };
            reference.insert(k, e);
            ops.push(Op::K(KOp::Ins { k, e, v: next_val, t: clock }));
            next_val += 1;
        } else if r < ins_bias + 28 {
            let k = rng.range(-1, universe) as i32;
            ops.push(Op::K(match rng.below(5) {
                0 => KOp::Less(clock, k),
                1 => KOp::LessEq(clock, k),
                2 => KOp::By(clock, k),
                3 => KOp::Th(clock, k),
                _ => KOp::Get(clock, k),
            }));
        } else if r < ins_bias + 31 {
            ops.push(Op::K(KOp::IsEmpty));
        } else if r < ins_bias + 33 {
            reference.clear();
            ops.push(Op::K(KOp::Clear));
            if rng.chance(50) {
                clock = rng.range(0, 3) as i32; // the caller's clock may restart after clear
            }
        } else {
            // export at a time relative to the stored expirations (the export works on a copy and
            // does not advance the collection's clock)
            let t = clock + rng.range(0, 3) as i32;
            ops.push(Op::K(KOp::Export(t)));
        }
    }
    History { coll: Coll::KeyTree, params: vec![pick_cap(rng)], ops, twin: None, inject: None }
}

const DOMAINS: [(i64, i64); 12] = [
    (0, 31),
    (0, 16),
    (-8, 8),
    (0, 32),
    (-100, 100),
    (0, 47),
    (5, 68),
    (0, 63),
    (-10240, 15360),
    (0, 999_999),
    (-3_000_000, 2_000_000),
    (-2_147_483_648, 2_147_483_647),
];

fn gen_seg(rng: &mut Rng, size: usize) -> History {
    let nops = if size == 0 { 40 } else { size };
    let (lo, hi) = *rng.pick(&DOMAINS);
    let mut ops = Vec::with_capacity(nops);
    let mut clock: i32 = 0;
    let mut next_id: i64 = 1;
    let len = hi - lo + 1;
    let bucket = {
        let mut p = 0;
        while (1i64 << p) < len {
            p += 1;
        }
        1i64 << (p.max(5) - 5)
    };
    let point = |rng: &mut Rng| -> i64 {
        match rng.below(6) {
            0 => lo,
            1 => hi,
            2 => (lo + bucket * rng.range(0, 31) - rng.range(0, 1)).clamp(lo, hi), // bucket edges
            _ => rng.range(lo, hi),
        }
    };
    for _ in 0..nops {
        let r = rng.below(100);
        let mut a = point(rng);
        let mut b = if rng.chance(25) { a } else if rng.chance(50) { (a + rng.range(0, 3 * bucket)).min(hi) } else { point(rng) };
        if a > b {
            std::mem::swap(&mut a, &mut b);
        }
        if r < 50 {
            let e = clock + rng.range(-1, 6) as i32;
            ops.push(Op::S(SOp::Ins { a, b, id: next_id, e }));
            next_id += 1;
        } else if r < 96 {
            if rng.chance(30) {
                clock += rng.range(0, 2) as i32;
            }
            let n = if rng.chance(30) { rng.range(0, 3) } else { -1 };
            if rng.chance(15) {
                a = lo;
                b = hi;
            }
            ops.push(Op::S(SOp::Query { a, b, t: clock, n }));
        } else {
            ops.push(Op::S(SOp::Clear));
            if rng.chance(50) {
                clock = 0;
            }
        }
    }
    History { coll: Coll::Seg, params: vec![lo, hi], ops, twin: None, inject: None }
}

// ---------------------------------------------------------------------------------------------
// edge profiles: extreme numeric values (keys / times / expirations at the ends of i32, the
// type's max_expiration() as an expiration), whole-domain and very wide segment domains

const EDGE_KEYS: [i32; 9] = [i32::MIN, i32::MIN + 1, -2, -1, 0, 1, 2, i32::MAX - 1, i32::MAX];

/// map / set history over the extreme keys of i32
pub fn gen_mapset_edge(rng: &mut Rng, coll: Coll, size: usize) -> History {
    let mut h = gen_mapset(rng, coll, size);
    // remap the small key universe onto the extreme keys, order-preserving, so the history stays valid
    let remap = |k: i32| -> i32 {
        if k < 0 {
            i32::MIN
        } else {
            let i = (k as usize).min(7);
            EDGE_KEYS[i + 1]
        }
    };
    // gen_mapset may have drawn a universe larger than 8 keys: regenerate until it is small
    let mut tries = 0;
    loop {
        let max_key = h.ops.iter().filter_map(|o| match o { Op::M(MOp::Ins(k, _)) => Some(*k), _ => None }).max().unwrap_or(0);
        if max_key <= 7 || tries > 50 {
            break;
        }
        h = gen_mapset(rng, coll, size);
        tries += 1;
    }
    for o in h.ops.iter_mut() {
        if let Op::M(m) = o {
            match m {
                MOp::Ins(k, _) | MOp::Del(k) | MOp::Get(k) | MOp::First(k) | MOp::FirstBy(k) | MOp::FirstTh(k) | MOp::Write(k, _)
                | MOp::DelIdx(k) | MOp::After(k) | MOp::Before(k) | MOp::WalkF(k) | MOp::WalkB(k) | MOp::Hold(k) => *k = remap(*k),
                _ => {}
            }
        }
    }
    h
}

/// expiring-key history with times close to i32::MAX, expirations up to i32::MAX (= max_expiration)
/// and keys at the ends of i32
pub fn gen_key_edge(rng: &mut Rng, size: usize) -> History {
    let nops = if size == 0 { 60 } else { size };
    let mut reference: BTreeMap<i32, i32> = BTreeMap::new();
    // the clock starts either very low or close to the top
    let mut clock: i64 = if rng.chance(50) { i32::MIN as i64 + rng.range(0, 3) } else { i32::MAX as i64 - rng.range(4, 40) };
    let top = i32::MAX as i64;
    // a fifth of the histories store only never-expiring entries (expiration == max_expiration())
    let all_max = rng.chance(20);
    let mut ops = Vec::with_capacity(nops);
    let mut next_val: i64 = 1;
    for _ in 0..nops {
        if rng.chance(20) && clock < top - 1 {
            clock += rng.range(0, 2);
        }
        let t = clock as i32;
        let r = rng.below(100);
        if r < 45 {
            let k = *rng.pick(&EDGE_KEYS);
            if reference.get(&k).map_or(false, |&e| e as i64 > clock) {
                ops.push(Op::K(KOp::LessEq(t, k)));
                continue;
            }
            let e: i64 = match if all_max { 0 } else { rng.below(6) } {
                0 => top,                       // max_expiration(): never expires before the clock ends
                1 => clock,                     // never visible
                2 => (clock + 1).min(top),
                _ => (clock + rng.range(1, 30)).min(top),
            };
            reference.insert(k, e as i32);
            ops.push(Op::K(KOp::Ins { k, e: e as i32, v: next_val, t }));
            next_val += 1;
        } else if r < 80 {
            let k = *rng.pick(&EDGE_KEYS);
            ops.push(Op::K(match rng.below(5) {
                0 => KOp::Less(t, k),
                1 => KOp::LessEq(t, k),
                2 => KOp::By(t, k),
                3 => KOp::Th(t, k),
                _ => KOp::Get(t, k),
            }));
        } else if r < 84 {
            ops.push(Op::K(KOp::IsEmpty));
        } else if r < 87 {
            reference.clear();
            ops.push(Op::K(KOp::Clear));
            if rng.chance(50) {
                clock = i32::MIN as i64 + rng.range(0, 3);
            }
        } else {
            let te = (clock + rng.range(0, 3)).min(top) as i32;
            ops.push(Op::K(KOp::Export(te)));
        }
    }
    History { coll: Coll::KeyTree, params: vec![pick_cap(rng)], ops, twin: None, inject: None }
}

const WIDE_DOMAINS: [(i64, i64); 8] = [
    (-(1 << 61), (1 << 61) - 2),
    (i64::MIN / 4, i64::MAX / 4),
    (0, (1 << 40) + 1),
    (-(1 << 33), (1 << 33)),
    (i32::MIN as i64, i32::MAX as i64),
    (-(1 << 50) - 17, (1 << 51) + 3),
    (5, (1 << 62) - 100),
    (-(1 << 62) + 1, -(1 << 61)),
];

/// segment-tree history on very wide domains, with whole-domain values (stored at the root place),
/// many copies per bucket list and bursts that expire together
pub fn gen_seg_wide(rng: &mut Rng, size: usize) -> History {
    let nops = if size == 0 { 60 } else { size };
    let (lo, hi) = if rng.chance(50) {
        *rng.pick(&WIDE_DOMAINS)
    } else {
        // 2^k + d points for every k up to 61: the lengths around which the bucket width changes
        let k = rng.range(33, 61) as u32;
        let len: i128 = (1i128 << k) + rng.range(-1, 3) as i128;
        let lo: i128 = match rng.below(3) {
            0 => 0,
            1 => -(len / 2),
            _ => -(rng.next() as i128 % (1i128 << 61)),
        };
        (lo as i64, (lo + len - 1) as i64)
    };
    let len = (hi as i128 - lo as i128 + 1) as i128;
    let mut p = 0u32;
    while (1i128 << p) < len {
        p += 1;
    }
    let bucket: i128 = 1i128 << (p.max(5) - 5);
    let mut ops = Vec::with_capacity(nops);
    let mut clock: i32 = 0;
    let mut next_id: i64 = 1;
    let point = |rng: &mut Rng| -> i64 {
        let x: i128 = match rng.below(6) {
            0 => lo as i128,
            1 => hi as i128,
            2 => lo as i128 + bucket * rng.range(0, 31) as i128 - rng.range(0, 1) as i128,
            _ => lo as i128 + (rng.next() as i128 * 7919) % len,
        };
        x.clamp(lo as i128, hi as i128) as i64
    };
    for _ in 0..nops {
        let r = rng.below(100);
        let mut a = point(rng);
        let mut b = if rng.chance(30) { a } else { point(rng) };
        if a > b {
            std::mem::swap(&mut a, &mut b);
        }
        if r < 55 {
            if rng.chance(15) {
                a = lo;
                b = hi;
            }
            // bursts: several values with the same expiration in the same place
            let e = clock + rng.range(-1, 4) as i32;
            let copies = if rng.chance(25) { rng.range(3, 12) } else { 1 };
            for _ in 0..copies {
                ops.push(Op::S(SOp::Ins { a, b, id: next_id, e }));
                next_id += 1;
            }
        } else if r < 96 {
            if rng.chance(35) {
                clock += rng.range(0, 3) as i32;
            }
            if rng.chance(10) {
                clock += 1000;
            }
            let n = if rng.chance(30) { rng.range(0, 3) } else { -1 };
            if rng.chance(25) {
                a = lo;
                b = hi;
            }
            ops.push(Op::S(SOp::Query { a, b, t: clock, n }));
        } else {
            ops.push(Op::S(SOp::Clear));
            if rng.chance(50) {
                clock = 0;
            }
        }
    }
    History { coll: Coll::Seg, params: vec![lo, hi], ops, twin: None, inject: None }
}
