//! Exhaustive generators: breadth-first closure over every state the REAL collections reach on a
//! small key universe (states identified by canonical shape: colours + entities in pre-order, slot
//! numbers ignored), with every operation applied from every state.  Also the finite sweeps of the
//! segment tree (all 528 x 528 range pairs on a 32-point domain; domain lengths for the layout).

use crate::exec;
use crate::ops::*;
use std::collections::{HashMap, VecDeque};

/// canonical shape of a tree snapshot: the pre-order term without slot numbers and without the pool
fn canon_tree(snap: &str, arity: usize) -> String {
    let body = snap.split(" |").next().unwrap_or("");
    let toks: Vec<&str> = body.split_whitespace().collect();
    let mut out = String::new();
    let mut i = 0;
    while i < toks.len() {
        match toks[i] {
            "." => {
                out.push('.');
                i += 1;
            }
            c @ ("R" | "B") => {
                out.push_str(c);
                for j in 0..arity {
                    out.push(' ');
                    out.push_str(toks[i + 2 + j]);
                }
                out.push(';');
                i += 2 + arity;
            }
            other => panic!("unexpected snapshot token {other} in {snap}"),
        }
    }
    out
}

fn hist(coll: Coll, cap: i64, ops: Vec<Op>) -> History {
    History { coll, params: vec![cap], ops, twin: None, inject: None }
}

fn shape_of(coll: Coll, ops: &[Op], arity: usize) -> String {
    if ops.is_empty() {
        return ".".into();
    }
    let (snap, _) = exec::run_silent(&hist(coll, 8, ops.to_vec()));
    if std::env::var("ITV_DEBUG").is_ok() { eprintln!("shape_of: {:?} -> {snap}", ops.iter().map(|o| o.text()).collect::<Vec<_>>()); }
    canon_tree(&snap, arity)
}

fn val_of(k: i32) -> i64 {
    100 + k as i64
}

pub struct MState {
    pub prefix: Vec<Op>,
    pub present: Vec<i32>,
}

/// every state of the map / set tree over keys 0..kmax reachable by insert / delete
pub fn mapset_states(coll: Coll, kmax: i32) -> Vec<MState> {
    let mut seen: HashMap<String, ()> = HashMap::new();
    let mut queue: VecDeque<MState> = VecDeque::new();
    let mut out = Vec::new();
    seen.insert(".".into(), ());
    queue.push_back(MState { prefix: vec![], present: vec![] });
    while let Some(st) = queue.pop_front() {
        for k in 0..kmax {
            let mut p = st.prefix.clone();
            let mut present = st.present.clone();
            if present.contains(&k) {
                p.push(Op::M(MOp::Del(k)));
                present.retain(|x| *x != k);
            } else {
                p.push(Op::M(MOp::Ins(k, val_of(k))));
                present.push(k);
                present.sort();
            }
            let sh = shape_of(coll, &p, 2);
            if !seen.contains_key(&sh) {
                seen.insert(sh, ());
                queue.push_back(MState { prefix: p, present });
            }
        }
        out.push(st);
    }
    out
}

fn as_list(h: &History) -> History {
    let mut l = h.clone();
    l.coll = match h.coll {
        Coll::MapTree => Coll::MapList,
        Coll::SetTree => Coll::SetList,
        c => c,
    };
    l.ops.retain(|o| !matches!(o, Op::M(MOp::Hold(_)) | Op::M(MOp::Chk)));
    l
}

/// from every reachable state: the full probe suite, and every mutation followed by a short probe
pub fn gen_mapsetx(coll: Coll, kmax: i32) -> Vec<History> {
    let is_set = coll == Coll::SetTree;
    let states = mapset_states(coll, kmax);
    let mut out = Vec::new();
    let mut push = |h: History| {
        out.push(as_list(&h));
        out.push(h);
    };
    for st in &states {
        // read-only probes (none of them changes the state)
        let mut ops = st.prefix.clone();
        ops.push(Op::M(MOp::IsEmpty));
        for q in -1..=kmax {
            ops.push(Op::M(MOp::Get(q)));
            ops.push(Op::M(MOp::First(q)));
            ops.push(Op::M(MOp::FirstBy(q)));
            ops.push(Op::M(MOp::FirstTh(q)));
            if is_set {
                ops.push(Op::M(MOp::After(q)));
                ops.push(Op::M(MOp::Before(q)));
            }
        }
        if is_set {
            if let (Some(lo), Some(hi)) = (st.present.first(), st.present.last()) {
                ops.push(Op::M(MOp::WalkF(*lo)));
                ops.push(Op::M(MOp::WalkB(*hi)));
                for k in &st.present {
                    ops.push(Op::M(MOp::WalkF(*k)));
                    ops.push(Op::M(MOp::WalkB(*k)));
                }
            }
        }
        push(hist(coll, 8, ops));
        // mutations
        for q in -1..=kmax {
            let tail = |ops: &mut Vec<Op>| {
                ops.push(Op::M(MOp::Get(q)));
                ops.push(Op::M(MOp::First(q)));
                ops.push(Op::M(MOp::IsEmpty));
            };
            if q >= 0 && q < kmax && !st.present.contains(&q) {
                let mut ops = st.prefix.clone();
                ops.push(Op::M(MOp::Ins(q, val_of(q))));
                tail(&mut ops);
                push(hist(coll, 8, ops));
            }
            // delete by key (present or absent), delete / write through the predecessor handle
            let mut ops = st.prefix.clone();
            ops.push(Op::M(MOp::Del(q)));
            tail(&mut ops);
            push(hist(coll, 8, ops));
            let mut ops = st.prefix.clone();
            ops.push(Op::M(MOp::DelIdx(q)));
            tail(&mut ops);
            push(hist(coll, 8, ops));
            let mut ops = st.prefix.clone();
            ops.push(Op::M(MOp::Write(q, 900 + q as i64)));
            tail(&mut ops);
            push(hist(coll, 8, ops));
        }
        let mut ops = st.prefix.clone();
        ops.push(Op::M(MOp::Clear));
        ops.push(Op::M(MOp::IsEmpty));
        ops.push(Op::M(MOp::Get(0)));
        ops.push(Op::M(MOp::First(kmax)));
        ops.push(Op::M(MOp::Ins(0, 7)));
        ops.push(Op::M(MOp::Get(0)));
        push(hist(coll, 8, ops));
    }
    out
}

fn permutations(v: &[i32], limit: usize) -> Vec<Vec<i32>> {
    fn go(cur: &mut Vec<i32>, rest: &mut Vec<i32>, out: &mut Vec<Vec<i32>>, limit: usize) {
        if out.len() >= limit {
            return;
        }
        if rest.is_empty() {
            out.push(cur.clone());
            return;
        }
        for i in 0..rest.len() {
            let x = rest.remove(i);
            cur.push(x);
            go(cur, rest, out, limit);
            cur.pop();
            rest.insert(i, x);
        }
    }
    let mut out = Vec::new();
    go(&mut vec![], &mut v.to_vec(), &mut out, limit);
    out
}

/// C17: from every reachable state, a handle to every stored entry, then every insertion sequence
/// of the absent keys, re-checking all handles after each insertion
pub fn gen_hold(kmax: i32) -> Vec<History> {
    let mut out = Vec::new();
    for coll in [Coll::MapTree, Coll::SetTree] {
        for st in mapset_states(coll, kmax) {
            if st.present.is_empty() {
                continue;
            }
            let absent: Vec<i32> = (0..kmax).filter(|k| !st.present.contains(k)).collect();
            if absent.is_empty() {
                continue;
            }
            for perm in permutations(&absent, 720) {
                let mut ops = st.prefix.clone();
                for k in &st.present {
                    ops.push(Op::M(MOp::Hold(*k)));
                }
                for a in perm {
                    ops.push(Op::M(MOp::Ins(a, val_of(a))));
                    ops.push(Op::M(MOp::Chk));
                    ops.push(Op::M(MOp::Get(a)));
                }
                out.push(hist(coll, 8, ops));
            }
        }
    }
    out
}

/// stored (key, exp) pairs of a key-tree snapshot
fn stored_of(snap: &str) -> Vec<(i32, i32)> {
    let body = snap.split(" |").next().unwrap_or("");
    let toks: Vec<&str> = body.split_whitespace().collect();
    let mut v = Vec::new();
    let mut i = 0;
    while i < toks.len() {
        if toks[i] == "." {
            i += 1;
        } else {
            v.push((toks[i + 2].parse().unwrap(), toks[i + 3].parse().unwrap()));
            i += 5;
        }
    }
    v
}

/// Expiring-key tree over keys 0..kmax, expirations clock+{0,1,2}, clock 0..=tmax: every reachable
/// (stored shape, clock) with EVERY operation applied from it (on a copy, so one history per state)
pub fn gen_keyx(kmax: i32, tmax: i32) -> Vec<History> {
    struct KState {
        prefix: Vec<Op>,
        clock: i32,
        stored: Vec<(i32, i32)>,
    }
    let mut seen: HashMap<(String, i32), ()> = HashMap::new();
    let mut queue: VecDeque<KState> = VecDeque::new();
    let mut out = Vec::new();
    seen.insert((".".into(), 0), ());
    queue.push_back(KState { prefix: vec![], clock: 0, stored: vec![] });
    let kval = |k: i32, e: i32| -> i64 { 1000 * (k as i64 + 1) + e as i64 };
    while let Some(st) = queue.pop_front() {
        let t = st.clock;
        let live = |k: i32| st.stored.iter().any(|(sk, se)| *sk == k && *se > t);
        // all operations possible here
        let mut moves: Vec<KOp> = Vec::new();
        for k in 0..kmax {
            if !live(k) {
                for e in t..=t + 2 {
                    moves.push(KOp::Ins { k, e, v: kval(k, e), t });
                }
            }
        }
        for q in -1..=kmax {
            moves.push(KOp::Less(t, q));
            moves.push(KOp::LessEq(t, q));
            moves.push(KOp::By(t, q));
            moves.push(KOp::Th(t, q));
            moves.push(KOp::Get(t, q));
        }
        let mut ops = st.prefix.clone();
        ops.push(Op::K(KOp::IsEmpty));
        for e in t..=t + 3 {
            ops.push(Op::K(KOp::Export(e)));
        }
        for m in &moves {
            ops.push(Op::Fork(Box::new(Op::K(m.clone()))));
        }
        ops.push(Op::K(KOp::Clear));
        ops.push(Op::K(KOp::IsEmpty));
        ops.push(Op::K(KOp::LessEq(0, kmax)));
        ops.push(Op::K(KOp::Ins { k: 0, e: 1, v: 5, t: 0 }));
        ops.push(Op::K(KOp::Get(0, 0)));
        let h = hist(Coll::KeyTree, 8, ops);
        let mut l = h.clone();
        l.coll = Coll::KeyList;
        out.push(l);
        out.push(h);
        // successors
        let mut succ: Vec<(Vec<Op>, i32)> = Vec::new();
        for m in moves {
            let mut p = st.prefix.clone();
            p.push(Op::K(m));
            succ.push((p, t));
        }
        if t < tmax {
            succ.push((st.prefix.clone(), t + 1));
        }
        for (p, clock) in succ {
            let (shape, stored) = if p.is_empty() {
                (".".to_string(), vec![])
            } else {
                let (snap, _) = exec::run_silent(&hist(Coll::KeyTree, 8, p.clone()));
                (canon_tree(&snap, 3), stored_of(&snap))
            };
            if !seen.contains_key(&(shape.clone(), clock)) {
                seen.insert((shape, clock), ());
                queue.push_back(KState { prefix: p, clock, stored });
            }
        }
    }
    out
}

/// all bucket ranges [a,b] within 0..31
fn ranges32() -> Vec<(i64, i64)> {
    let mut v = Vec::new();
    for a in 0..32 {
        for b in a..32 {
            v.push((a, b));
        }
    }
    v
}

/// C15 / C03: a tree over [0,31]; for every insert range one history that inserts a live and an
/// expired value and then queries EVERY range (528 x 528 ordered pairs in total)
pub fn gen_seg32() -> Vec<History> {
    let rs = ranges32();
    let mut out = Vec::new();
    for (i, (a, b)) in rs.iter().enumerate() {
        let mut ops = Vec::with_capacity(rs.len() + 3);
        ops.push(Op::S(SOp::Ins { a: *a, b: *b, id: 1 + i as i64, e: 5 }));
        ops.push(Op::S(SOp::Ins { a: *a, b: *b, id: 10_000 + i as i64, e: 5 }));
        for (c, d) in &rs {
            ops.push(Op::S(SOp::Query { a: *c, b: *d, t: 5, n: -1 }));
        }
        out.push(History { coll: Coll::Seg, params: vec![0, 31], ops, twin: None, inject: None });
    }
    out
}

/// C14: construction over lengths 1..=40, 2^k-1, 2^k, 2^k+1 (k <= 60) at several offsets (negative,
/// non-aligned, near the ends of i32 / i64), with single-point and edge inserts / queries at lo, hi
/// and every bucket edge
pub fn gen_layout(deep: bool) -> Vec<History> {
    let mut lens: Vec<i64> = (1..=40).collect();
    for k in 5..=60u32 {
        let p = 1i64 << k;
        lens.push(p - 1);
        lens.push(p);
        lens.push(p + 1);
        if deep {
            lens.push(p + p / 2);
            lens.push(p + p / 3);
        }
    }
    let offsets: Vec<i64> = vec![0, -7, 1, -1_000_003, 5, i32::MIN as i64, -(1i64 << 40)];
    let mut out = Vec::new();
    for len in lens {
        for off in &offsets {
            let lo = *off;
            let hi = lo + len - 1;
            // the harness instantiates R = i64; keep the domain inside i64 with room to spare
            let mut ops = Vec::new();
            if len > 16 {
                let mut p = 0;
                while (1i64 << p) < len {
                    p += 1;
                }
                let w = 1i64 << (p.max(5) - 5);
                let mut id = 1;
                let mut pts: Vec<i64> = vec![lo, hi, lo + 1, hi - 1];
                for j in 0..=32 {
                    for d in [-1i64, 0] {
                        let x = lo + w * j + d;
                        if x >= lo && x <= hi {
                            pts.push(x);
                        }
                    }
                }
                pts.sort();
                pts.dedup();
                for x in &pts {
                    ops.push(Op::S(SOp::Ins { a: *x, b: *x, id, e: 9 }));
                    id += 1;
                }
                ops.push(Op::S(SOp::Ins { a: lo, b: hi, id, e: 9 }));
                for x in &pts {
                    ops.push(Op::S(SOp::Query { a: *x, b: *x, t: 1, n: -1 }));
                }
                ops.push(Op::S(SOp::Query { a: lo, b: hi, t: 1, n: -1 }));
                ops.push(Op::S(SOp::Query { a: lo, b: lo, t: 10, n: -1 }));
                ops.push(Op::S(SOp::Query { a: lo, b: hi, t: 10, n: -1 }));
            }
            out.push(History { coll: Coll::Seg, params: vec![lo, hi], ops, twin: None, inject: None });
        }
    }
    out
}

// ---------------------------------------------------------------------------------------------
// shape closure: every coloured SHAPE of up to `nmax` nodes that the real tree reaches, with every
// insertion (into every gap) and every removal (of every node) applied from it

/// the coloured shape of a tree snapshot: pre-order term with colours only
fn canon_shape(snap: &str, arity: usize) -> String {
    let body = snap.split(" |").next().unwrap_or("");
    let toks: Vec<&str> = body.split_whitespace().collect();
    let mut out = String::new();
    let mut i = 0;
    while i < toks.len() {
        match toks[i] {
            "." => {
                out.push('.');
                i += 1;
            }
            c @ ("R" | "B") => {
                out.push_str(c);
                i += 2 + arity;
            }
            other => panic!("unexpected snapshot token {other} in {snap}"),
        }
    }
    out
}

pub struct ShapeState {
    pub prefix: Vec<Op>,
    pub keys: Vec<i32>, // sorted
}

/// key strictly between the neighbours of gap `g` (0 = below the smallest) of a sorted key list
fn gap_key(keys: &[i32], g: usize) -> Option<i32> {
    let lo: i64 = if g == 0 { -(1 << 30) } else { keys[g - 1] as i64 };
    let hi: i64 = if g == keys.len() { 1 << 30 } else { keys[g] as i64 };
    if hi - lo < 2 {
        None
    } else {
        Some(((lo + hi) / 2) as i32)
    }
}

pub fn shape_states(coll: Coll, nmax: usize, limit: usize) -> Vec<ShapeState> {
    let mut seen: HashMap<String, ()> = HashMap::new();
    let mut queue: VecDeque<ShapeState> = VecDeque::new();
    let mut out = Vec::new();
    seen.insert(".".into(), ());
    queue.push_back(ShapeState { prefix: vec![], keys: vec![] });
    while let Some(st) = queue.pop_front() {
        if out.len() + queue.len() < limit {
            let mut succ: Vec<(Op, Vec<i32>)> = Vec::new();
            if st.keys.len() < nmax {
                for g in 0..=st.keys.len() {
                    if let Some(k) = gap_key(&st.keys, g) {
                        let mut ks = st.keys.clone();
                        ks.insert(g, k);
                        succ.push((Op::M(MOp::Ins(k, val_of(k % 1000))), ks));
                    }
                }
            }
            for (i, k) in st.keys.iter().enumerate() {
                let mut ks = st.keys.clone();
                ks.remove(i);
                succ.push((Op::M(MOp::Del(*k)), ks));
            }
            for (op, ks) in succ {
                let mut p = st.prefix.clone();
                p.push(op);
                let (snap, _) = exec::run_silent(&hist(coll, 8, p.clone()));
                let sh = canon_shape(&snap, 2);
                if !seen.contains_key(&sh) {
                    seen.insert(sh, ());
                    queue.push_back(ShapeState { prefix: p, keys: ks });
                }
            }
        }
        out.push(st);
    }
    out
}

/// from every reachable shape of up to nmax nodes: insertion into every gap and removal of every node
/// (by key, and through the predecessor handle), each followed by a look-up of every key and, for the
/// set, the neighbour steps of every entry.  `shard` / `shards` split the states.
pub fn gen_shapex(coll: Coll, nmax: usize, shards: usize, shard: usize) -> Vec<History> {
    let is_set = coll == Coll::SetTree;
    let states = shape_states(coll, nmax, 60_000);
    let mut out = Vec::new();
    for (si, st) in states.iter().enumerate() {
        if si % shards.max(1) != shard % shards.max(1) {
            continue;
        }
        let probes = |ops: &mut Vec<Op>, keys: &[i32]| {
            for k in keys {
                ops.push(Op::M(MOp::Get(*k)));
                if is_set {
                    ops.push(Op::M(MOp::After(*k)));
                    ops.push(Op::M(MOp::Before(*k)));
                } else {
                    ops.push(Op::M(MOp::First(*k)));
                }
            }
            if is_set {
                if let Some(lo) = keys.first() {
                    ops.push(Op::M(MOp::WalkF(*lo)));
                }
            }
        };
        // all single steps from this shape share one history each (the state is rebuilt per history)
        if st.keys.len() < nmax + 1 {
            for g in 0..=st.keys.len() {
                if let Some(k) = gap_key(&st.keys, g) {
                    let mut ops = st.prefix.clone();
                    ops.push(Op::M(MOp::Ins(k, 7)));
                    let mut ks = st.keys.clone();
                    ks.insert(g, k);
                    probes(&mut ops, &ks);
                    out.push(hist(coll, 8, ops));
                }
            }
        }
        for (i, k) in st.keys.iter().enumerate() {
            let mut ks = st.keys.clone();
            ks.remove(i);
            let mut ops = st.prefix.clone();
            ops.push(Op::M(if i % 2 == 0 { MOp::Del(*k) } else { MOp::DelIdx(*k) }));
            probes(&mut ops, &ks);
            out.push(hist(coll, 8, ops));
        }
    }
    out
}
