(* modelrun — replays harness traces on the extracted Coq model and the reference semantics.

   For every operation line of the trace it reports, per observation level, whether the
   implementation's observation equals the model's / the specification's, and evaluates the
   extracted invariant checkers on the implementation's snapshot.  Hand-written glue only:
   line parsing, int <-> N/Z conversion, printing. *)
open Model

(* ------------------------------------------------------------------ numbers *)
let rec pos_of_int i = if i = 1 then XH else if i land 1 = 0 then XO (pos_of_int (i lsr 1)) else XI (pos_of_int (i lsr 1))
let n_of_int i = if i = 0 then N0 else Npos (pos_of_int i)
let z_of_int i = if i = 0 then Z0 else if i > 0 then Zpos (pos_of_int i) else Zneg (pos_of_int (-i))
let rec int_of_pos = function XH -> 1 | XO p -> 2 * int_of_pos p | XI p -> 2 * int_of_pos p + 1
let int_of_n = function N0 -> 0 | Npos p -> int_of_pos p
let int_of_z = function Z0 -> 0 | Zpos p -> int_of_pos p | Zneg p -> - (int_of_pos p)
let rec nat_of_int i = if i <= 0 then O else S (nat_of_int (i - 1))
let rec int_of_nat = function O -> 0 | S n -> 1 + int_of_nat n
(* masks use bit 62, which does not fit an OCaml int: go through hexadecimal digits *)
let n_of_hex (s: string) : n =
  let bits = ref [] in
  String.iter (fun c ->
    let d = match c with '0'..'9' -> Char.code c - 48 | 'a'..'f' -> Char.code c - 87 | _ -> failwith "hex" in
    bits := !bits @ [d land 8 <> 0; d land 4 <> 0; d land 2 <> 0; d land 1 <> 0]) s;
  (* most significant first *)
  let rec strip = function false :: r -> strip r | l -> l in
  match strip !bits with
  | [] -> N0
  | _ :: rest -> Npos (List.fold_left (fun p b -> if b then XI p else XO p) XH rest)
let hex_of_n (x: n) : string =
  match x with
  | N0 -> "0"
  | Npos p ->
    let rec bits p acc = match p with XH -> true :: acc | XO q -> bits q (false :: acc) | XI q -> bits q (true :: acc) in
    let b = bits p [] in (* most significant first *)
    let pad = (4 - (List.length b mod 4)) mod 4 in
    let b = List.init pad (fun _ -> false) @ b in
    let buf = Buffer.create 16 in
    let rec go = function
      | a :: b :: c :: d :: r ->
        let v = (if a then 8 else 0) + (if b then 4 else 0) + (if c then 2 else 0) + (if d then 1 else 0) in
        Buffer.add_char buf "0123456789abcdef".[v]; go r
      | _ -> () in
    go b; Buffer.contents buf

(* ------------------------------------------------------------------ reporting *)
let max_report = 4
let counts : (string, int) Hashtbl.t = Hashtbl.create 32
let stats : (string, int) Hashtbl.t = Hashtbl.create 64
let bump tbl k n = Hashtbl.replace tbl k (n + (try Hashtbl.find tbl k with Not_found -> 0))
let stat k = bump stats k 1
let statn k n = bump stats k n

let cur_coll = ref "" and cur_hist = ref 0 and cur_step = ref 0 and cur_op = ref ""
let clean s = String.map (fun c -> if c = '"' then '\'' else c) s
let opkind () = match String.split_on_char ' ' (String.trim !cur_op) with k :: _ when k <> "" -> k | _ -> "-"
let mismatch level ~impl ~model =
  let key = level ^ " " ^ !cur_coll ^ " " ^ opkind () in
  bump counts key 1;
  if Hashtbl.find counts key <= max_report then
    Printf.printf "MISMATCH level=%s coll=%s opk=%s hist=%d step=%d op=\"%s\" impl=\"%s\" expected=\"%s\"\n"
      level !cur_coll (opkind ()) !cur_hist !cur_step (clean !cur_op) (clean impl) (clean model)

(* ------------------------------------------------------------------ strings *)
let words s = List.filter (fun w -> w <> "") (String.split_on_char ' ' s)
let unwords l = String.concat " " l
let is_handle w = String.length w >= 2 && w.[0] = 'h' && (w.[1] = '-' || (w.[1] >= '0' && w.[1] <= '9'))
let is_cap w = String.length w > 3 && String.sub w 0 3 = "cap"
let no_handles s = unwords (List.filter (fun w -> not (is_handle w)) (words s))
let only_handles s = unwords (List.filter is_handle (words s))
let starts_with p s = String.length s >= String.length p && String.sub s 0 (String.length p) = p

(* split "a => b @ c ## d" *)
let split_on (sep: string) (s: string) : (string * string) option =
  let n = String.length s and m = String.length sep in
  let rec find i = if i + m > n then None else if String.sub s i m = sep then Some i else find (i + 1) in
  match find 0 with
  | None -> None
  | Some i -> Some (String.trim (String.sub s 0 i), String.trim (String.sub s (i + m) (n - i - m)))

(* ------------------------------------------------------------------ trees *)
let hs = function None -> "h-" | Some x -> "h" ^ string_of_int (int_of_n x)

(* compressed free list: ascending runs a..b *)
let fmt_unused (l: int list) : string =
  let buf = Buffer.create 64 in
  let rec go = function
    | [] -> ()
    | a :: rest ->
      let rec run b = function x :: r when x = b + 1 -> run x r | r -> (b, r) in
      let (b, r) = run a rest in
      if b > a + 1 then Buffer.add_string buf (Printf.sprintf " %d..%d" a b)
      else if b = a + 1 then Buffer.add_string buf (Printf.sprintf " %d %d" a b)
      else Buffer.add_string buf (Printf.sprintf " %d" a);
      go r in
  go l; Buffer.contents buf

let parse_unused (ws: string list) : int list =
  List.concat_map (fun w ->
    match split_on ".." w with
    | Some (a, b) -> let a = int_of_string a and b = int_of_string b in List.init (b - a + 1) (fun i -> a + i)
    | None -> [int_of_string w]) ws

(* parse a pre-order term with [arity] entity tokens per node *)
let parse_tree (mk: string list -> 'e) (arity: int) (ws: string list) : 'e tree * string list =
  let rec go ws = match ws with
    | "." :: r -> (E, r)
    | c :: slot :: r when c = "R" || c = "B" ->
      let rec take k l acc = if k = 0 then (List.rev acc, l) else match l with x :: r -> take (k - 1) r (x :: acc) | [] -> failwith "tree" in
      let (et, r) = take arity r [] in
      let (l, r) = go r in
      let (rt, r) = go r in
      (T ((if c = "R" then Red else Black), l, n_of_int (int_of_string slot), mk et, rt), r)
    | _ -> failwith "tree token" in
  go ws

let rec strip_slots = function E -> E | T (c, l, _, e, r) -> T (c, strip_slots l, N0, e, strip_slots r)

let ment_of = function [k; v] -> (z_of_int (int_of_string k), z_of_int (int_of_string v)) | _ -> failwith "ment"
let kent_of = function [k; e; v] -> { kk = z_of_int (int_of_string k); kexp = z_of_int (int_of_string e); kval = z_of_int (int_of_string v) } | _ -> failwith "kent"

type 'e snap = Broken of string | NoSnap | Snap of 'e tree * pool

let parse_tree_snap mk arity (s: string) : 'e snap =
  let s = (match split_on "#" s with Some (a, _) -> a | None -> s) in
  if s = "-" then NoSnap
  else if starts_with "BROKEN" s then Broken s
  else
    try
      let (t, r) = parse_tree mk arity (words s) in
      match r with
      | "|" :: bl :: uc :: un ->
        Snap (t, { blen = n_of_int (int_of_string bl); ucap = n_of_int (int_of_string uc);
                   unused = List.map n_of_int (parse_unused un) })
      | _ -> Broken ("unparsable snapshot: " ^ s)
    with _ -> Broken ("unparsable snapshot: " ^ s)

let shapes : (string, unit) Hashtbl.t = Hashtbl.create 4096
let rec shape_string buf = function
  | E -> Buffer.add_char buf '.'
  | T (c, l, _, _, r) -> Buffer.add_char buf (match c with Red -> 'r' | Black -> 'b'); shape_string buf l; shape_string buf r
let note_shape coll t =
  let b = Buffer.create 64 in Buffer.add_string b coll; shape_string b t;
  let k = Buffer.contents b in
  if not (Hashtbl.mem shapes k) then (Hashtbl.add shapes k (); stat ("shapes_" ^ coll))

(* invariant checkers on the IMPLEMENTATION's snapshot; the quadratic pool check is run on small
   arenas, on a sample of the large ones, and whenever the slot-level correspondence broke *)
let check_inv key_of (t: 'e tree) (p: pool) ~(force: bool) =
  if not (rb_ok t) then mismatch "INV_RB" ~impl:"red-black rules violated" ~model:"rb_ok";
  if not (bst_ok key_of t) then mismatch "INV_BST" ~impl:"keys not strictly increasing in order" ~model:"bst_ok";
  if not (height_ok t) then mismatch "INV_HEIGHT" ~impl:"height above 2*log2(n+1)+1" ~model:"height_ok";
  let small = int_of_n p.blen <= 64 in
  if force || small || !cur_step mod 37 = 0 then begin
    stat "pool_checks";
    if not (pool_ok t p) then mismatch "INV_POOL" ~impl:"slots are not partitioned into sentinel / tree / free list" ~model:"pool_ok"
  end

let peak = ref 0 and cap_hint = ref 0
let compare_tree_snap (coll: string) key_of (snap: 'e snap) (mt: 'e tree) (mp: pool) =
  (* the peak population is followed on the model after every operation: snapshots of the
     implementation may be sparse (ITV_SNAP_EVERY), and a peak between two of them must count *)
  let rec tsize = function E -> 0 | T (_, l, _, _, r) -> tsize l + 1 + tsize r in
  let mstored = tsize mt in
  if mstored > !peak then peak := mstored;
  match snap with
  | NoSnap -> ()
  | Broken why -> mismatch "INV_LINKS" ~impl:why ~model:"consistent links"
  | Snap (t, p) ->
    stat "snapshots";
    (* C11: slots ever allocated <= 3 * (peak population + 1) + max (capacity hint) 8 *)
    let stored = int_of_nat (size0 t) in
    if stored > !peak then peak := stored;
    let bound = 3 * (!peak + 1) + max !cap_hint 8 in
    if int_of_n p.blen > bound then
      mismatch "BOUND" ~impl:(Printf.sprintf "buffer of %d slots, peak population %d, capacity hint %d" (int_of_n p.blen) !peak !cap_hint)
        ~model:(Printf.sprintf "<= 3*(peak+1) + max(hint,8) = %d" bound);
    note_shape coll t;
    let slots_ok = (t = mt) && p = mp in
    if strip_slots t <> strip_slots mt then mismatch "SHAPE" ~impl:"tree shape/colours/entities differ" ~model:"model tree"
    else if not slots_ok then
      mismatch "SLOTS" ~impl:(Printf.sprintf "blen=%d ucap=%d unused=%s" (int_of_n p.blen) (int_of_n p.ucap) (fmt_unused (List.map int_of_n p.unused)))
        ~model:(Printf.sprintf "blen=%d ucap=%d unused=%s%s" (int_of_n mp.blen) (int_of_n mp.ucap) (fmt_unused (List.map int_of_n mp.unused)) (if t <> mt then " (slot numbers in the tree differ)" else ""));
    check_inv key_of t p ~force:(not slots_ok)

(* ------------------------------------------------------------------ arena level
   The statement-by-statement arena models (Model/Arena*.v: parent / left / right links, colour and
   entity of EVERY slot - sentinel, linked, freed, never used) are run beside the tree-level model and
   compared with the implementation's raw buffer, field by field.  This ties the transcription itself
   to the code; the refinement arena -> tree -> specification is proved (C02/C04/C01 ..._arena_...). *)
let arena_live = ref true
type arena_st = ANone | AMap of mast | AKey of kast
let arena = ref ANone
let arena_max = 256
let kdflt = { kk = Z0; kexp = Z0; kval = Z0 }
let mdflt : ment = (Z0, Z0)
let compact (dflt: 'e) (a: 'e astate) (p: pool) : 'e astate =
  let len = int_of_n p.blen in
  let arr = Array.init len (fun i -> a.nodes (n_of_int i)) in
  let d = { par = N0; lft = N0; rgt = N0; red = true; aent = dflt } in
  { nodes = (fun i -> let j = int_of_n i in if j < len then arr.(j) else d); aroot = a.aroot }
let arena_fuel (p: pool) = nat_of_int (3 * int_of_n p.blen + 64)
let res_name = function ErrStuck -> "Stuck" | ErrFuel -> "OutOfFuel" | ErrPool -> "PoolEmpty" | ErrHandle -> "BadHandle" | ErrIndex -> "IndexOutOfRange" | ErrRange -> "OutOfMachineRange"

let arena_mstep (o: mop) (out: mout) =
  match !arena with
  | AMap st ->
    if int_of_n (snd st).blen > arena_max then arena := ANone
    else begin
      stat "arena_steps";
      match arena_m_step (arena_fuel (snd st)) st o with
      | Ret ((a', p'), out') ->
        if out' <> out then mismatch "ARENA_OUT" ~impl:"(tree-level model's answer)" ~model:"arena-level model answers differently";
        arena := (if int_of_n p'.blen > arena_max then ANone else AMap (compact mdflt a' p', p'))
      | Err e -> mismatch "ARENA_ERR" ~impl:"tree-level model returned normally" ~model:("arena-level model returned " ^ res_name e); arena := ANone
    end
  | _ -> ()

let arena_kstep (o: kop) (out: kout) =
  match !arena with
  | AKey st ->
    if int_of_n (snd st).blen > arena_max then arena := ANone
    else begin
      stat "arena_steps";
      let r = arena_k_step (arena_fuel (snd st)) st o in
      match r with
      | Ret ((a', p'), out') ->
        if out' <> out then mismatch "ARENA_OUT" ~impl:"(tree-level model's answer)" ~model:"arena-level model answers differently";
        arena := (if int_of_n p'.blen > arena_max then ANone else AKey (compact kdflt a' p', p'))
      | Err e -> mismatch "ARENA_ERR" ~impl:"tree-level model returned normally" ~model:("arena-level model returned " ^ res_name e); arena := ANone
    end
  | _ -> ()

(* the implementation's raw buffer against the arena-level model's, every field of every slot *)
let compare_raw (mk: string list -> 'e) (fmt: 'e -> string) (snap: string) (a: 'e astate) (p: pool) =
  match split_on "#" snap with
  | None -> ()
  | Some (_, raw) ->
    (match String.split_on_char ';' raw with
     | root :: slots ->
       stat "raw_arenas";
       let cs b = if b then "R" else "B" in
       let bad = ref false in
       if int_of_string (String.trim root) <> int_of_n a.aroot then begin
         bad := true; mismatch "ARENA" ~impl:("root " ^ String.trim root) ~model:(Printf.sprintf "root %d" (int_of_n a.aroot)) end;
       if List.length slots <> int_of_n p.blen then begin
         bad := true; mismatch "ARENA" ~impl:(Printf.sprintf "%d slots" (List.length slots)) ~model:(Printf.sprintf "%d slots" (int_of_n p.blen)) end;
       List.iteri (fun i sl ->
         if not !bad then
           match words sl with
           | pp :: l :: r :: c :: et ->
             let nd = a.nodes (n_of_int i) in
             statn "raw_slots" 1;
             if int_of_string pp <> int_of_n nd.par || int_of_string l <> int_of_n nd.lft || int_of_string r <> int_of_n nd.rgt
                || c <> cs nd.red || mk et <> nd.aent then begin
               bad := true;
               mismatch "ARENA" ~impl:(Printf.sprintf "slot %d: %s" i (String.trim sl))
                 ~model:(Printf.sprintf "slot %d: %d %d %d %s %s" i (int_of_n nd.par) (int_of_n nd.lft) (int_of_n nd.rgt) (cs nd.red) (fmt nd.aent))
             end
           | _ -> ()) slots
     | [] -> ())


let fmt_ment_raw (e: ment) = Printf.sprintf "%d %d" (int_of_z (fst e)) (int_of_z (snd e))
let fmt_kent_raw (e: kent) = Printf.sprintf "%d %d %d" (int_of_z e.kk) (int_of_z e.kexp) (int_of_z e.kval)
(* a never-written slot of the set holds the default payload, the empty string: read as 0 *)
let ment_of_raw = function [k] -> ment_of [k; "0"] | l -> ment_of l
let raw_map snap = (match !arena with AMap (a, p) -> compare_raw ment_of_raw fmt_ment_raw snap a p | _ -> ())
let raw_key snap = (match !arena with AKey (a, p) -> compare_raw kent_of fmt_kent_raw snap a p | _ -> ())

(* ------------------------------------------------------------------ map / set *)
type mkind = { is_set : bool; is_list : bool }

let fmt_ent k (e: ment) = if k.is_set then Printf.sprintf "%d:%d" (int_of_z (fst e)) (int_of_z (snd e)) else string_of_int (int_of_z (snd e))
let thresh_lt (k: z) : z -> comparison = fun x -> (match Model.Z.compare x k with Lt -> Lt | _ -> Gt)

exception Model_err of string
let err_name = function ErrStuck -> "Stuck" | ErrFuel -> "OutOfFuel" | ErrPool -> "PoolEmpty" | ErrHandle -> "BadHandle" | ErrIndex -> "IndexOutOfRange" | ErrRange -> "OutOfMachineRange"
let get = function Ret a -> a | Err e -> raise (Model_err (err_name e))

(* a uniform view of the tree and list models *)
type mmodel = MT of mstate | ML of lstate
(* ------------------------------------------------------------------ extraction cross-check
   With MODELRUN_COQ=<file> the first few short histories are written out as Coq [Example]s stating
   that the Gallina model, evaluated by the kernel's vm_compute, produces the outputs the extracted
   OCaml code produced here: compiling that file validates extraction and this driver. *)
let coq_file = try Some (Sys.getenv "MODELRUN_COQ") with Not_found -> None
let coq_max = 6
let coq_emitted = ref 0
let coq_buf = Buffer.create 4096
let coq_ops : string list ref = ref [] and coq_outs : string list ref = ref []
let coq_ok = ref false and coq_head = ref "" and coq_kind = ref ""
let by_desc = ref ""
let gz z = Printf.sprintf "(%d)%%Z" (int_of_z z)
let gn x = Printf.sprintf "%d%%N" (int_of_n x)
let gopt f = function None -> "None" | Some x -> "(Some " ^ f x ^ ")"
let gent (a, b) = Printf.sprintf "(%s, %s)" (gz a) (gz b)
let glist f l = "[" ^ String.concat "; " (List.map f l) ^ "]"
let gal_mop = function
  | MIns (k, v) -> Printf.sprintf "MIns %s %s" (gz k) (gz v)
  | MDel k -> "MDel " ^ gz k
  | MDelAt h -> "MDelAt " ^ gn h
  | MGet k -> "MGet " ^ gz k
  | MIsEmpty -> "MIsEmpty"
  | MFirst k -> "MFirst " ^ gz k
  | MFirstBy _ -> "MFirstBy " ^ !by_desc
  | MValAt h -> "MValAt " ^ gn h
  | MSetAt (h, v) -> Printf.sprintf "MSetAt %s %s" (gn h) (gz v)
  | MAfter h -> "MAfter " ^ gn h
  | MBefore h -> "MBefore " ^ gn h
  | MClear -> "MClear"
let gal_mout = function
  | ONone -> "ONone"
  | OEnt e -> "OEnt " ^ gopt gent e
  | OBool b -> "OBool " ^ string_of_bool b
  | OHandle h -> "OHandle " ^ gopt gn h
let coq_log o out = if !coq_ok then (coq_ops := o :: !coq_ops; coq_outs := out :: !coq_outs)

let mstep (m: mmodel) (o: mop) : mmodel * mout =
  match m with
  | MT s -> let (s', o') = get (m_step s o) in (MT s', o')
  | ML l -> let (l', o') = get (ml_step l o) in (ML l', o')

let out_handle = function OHandle h -> h | _ -> failwith "handle expected"
let out_ent = function OEnt e -> e | _ -> failwith "entity expected"

let run_mapset_op k (m: mmodel ref) (spec: amap ref) (held: n list ref) (held_keys: z list ref) (toks: string list)
  : string * string =
  (* returns (model answer, spec answer) *)
  let zi s = z_of_int (int_of_string s) in
  let step o = let (m', out) = mstep !m o in m := m'; coq_log (gal_mop o) (gal_mout out); (if !arena_live then arena_mstep o out); out in
  let hv h = match h with None -> hs None | Some x -> hs h ^ " " ^ fmt_ent k (Option.get (out_ent (step (MValAt x)))) in
  let sv = function None -> "" | Some e -> fmt_ent k e in
  let first_tok tok key = match tok with
    | "F" | "W" | "X" | "A" | "B" | "WF" | "WB" | "HOLD" -> (MFirst key, a_pred !spec key)
    | "FB" -> by_desc := Printf.sprintf "(cmp_to %s)" (gz key); (MFirstBy (cmp_to key), a_pred_by !spec (cmp_to key))
    | "FT" -> by_desc := Printf.sprintf "(fun x => match Z.compare x %s with Lt => Lt | _ => Gt end)" (gz key);
              (MFirstBy (thresh_lt key), a_pred_by !spec (thresh_lt key))
    | _ -> failwith "first" in
  match toks with
  | ["I"; a; b] -> ignore (step (MIns (zi a, zi b))); spec := a_insert !spec (zi a) (zi b); ("", "")
  | ["D"; a] -> held := []; held_keys := []; ignore (step (MDel (zi a))); spec := a_remove !spec (zi a); ("", "")
  | ["G"; a] ->
    let r = out_ent (step (MGet (zi a))) in
    ((match r with None -> "none" | Some e -> fmt_ent k e), (match a_lookup !spec (zi a) with None -> "none" | Some e -> fmt_ent k e))
  | ["E"] ->
    let r = (match step MIsEmpty with OBool b -> b | _ -> failwith "bool") in
    ((if r then "1" else "0"), (if !spec = [] then "1" else "0"))
  | [("F" | "FB" | "FT") as t; a] ->
    let (o, sp) = first_tok t (zi a) in
    let h = out_handle (step o) in (hv h, sv sp)
  | ["W"; a; b] ->
    let (o, sp) = first_tok "W" (zi a) in
    let h = out_handle (step o) in
    (match h with Some x -> ignore (step (MSetAt (x, zi b))) | None -> ());
    (match sp with Some (pk, _) -> spec := a_update !spec pk (zi b) | None -> ());
    (hs h, "")
  | ["X"; a] ->
    held := []; held_keys := [];
    let (o, sp) = first_tok "X" (zi a) in
    let h = out_handle (step o) in
    (match h with Some x -> ignore (step (MDelAt x)) | None -> ());
    (match sp with Some (pk, _) -> spec := a_remove !spec pk | None -> ());
    (hs h, "")
  | ["C"] -> held := []; held_keys := []; ignore (step MClear); spec := []; ("", "")
  | [("A" | "B") as t; a] ->
    let (o, sp) = first_tok t (zi a) in
    let h = out_handle (step o) in
    let ms = (match h with
      | None -> hs None
      | Some x -> let h1 = out_handle (step (if t = "A" then MAfter x else MBefore x)) in hs h ^ " " ^ hv h1) in
    let ss = (match sp with
      | None -> ""
      | Some (pk, _) -> sv (if t = "A" then a_next !spec pk else a_prev !spec pk)) in
    (ms, ss)
  | [("WF" | "WB") as t; a] ->
    let (o, sp) = first_tok t (zi a) in
    let h = ref (out_handle (step o)) in
    let buf = Buffer.create 64 in
    let fuel = ref (List.length !spec + 5) in
    while !h <> None && !fuel > 0 do
      let x = Option.get !h in
      Buffer.add_string buf (fmt_ent k (Option.get (out_ent (step (MValAt x))))); Buffer.add_char buf ' ';
      h := out_handle (step (if t = "WF" then MAfter x else MBefore x)); decr fuel
    done;
    let sbuf = Buffer.create 64 in
    let cur = ref sp in
    let fuel = ref (List.length !spec + 5) in
    while !cur <> None && !fuel > 0 do
      let e = Option.get !cur in
      Buffer.add_string sbuf (fmt_ent k e); Buffer.add_char sbuf ' ';
      cur := (if t = "WF" then a_next !spec (fst e) else a_prev !spec (fst e)); decr fuel
    done;
    (String.trim (Buffer.contents buf), String.trim (Buffer.contents sbuf))
  | ["HOLD"; a] ->
    let (o, sp) = first_tok "HOLD" (zi a) in
    let h = out_handle (step o) in
    (match h with Some x -> held := !held @ [x] | None -> ());
    (match sp with Some (pk, _) -> held_keys := !held_keys @ [pk] | None -> ());
    (hv h, sv sp)
  | ["CHK"] ->
    let ms = unwords (List.map (fun x -> fmt_ent k (Option.get (out_ent (step (MValAt x))))) !held) in
    let ss = unwords (List.map (fun pk -> sv (a_lookup !spec pk)) !held_keys) in
    (ms, ss)
  | _ -> failwith ("unknown map/set op: " ^ unwords toks)

(* ------------------------------------------------------------------ expiring keys *)
let max_exp_i32 = z_of_int 2147483647
type kmodel = KT of kstate | KL of klstate
let thresh_le (k: z) : z -> comparison = fun x -> (match Model.Z.compare x k with Gt -> Gt | _ -> Lt)

let fmt_oval = function None -> "none" | Some v -> string_of_int (int_of_z v)

let kop_of_toks (toks: string list) : kop * int option =
  let zi s = z_of_int (int_of_string s) in
  match toks with
  | ["I"; k; e; v; t] -> (KIns (zi k, zi e, zi v, zi t), Some (int_of_string t))
  | ["QL"; t; k] -> (KLess (zi t, zi k), Some (int_of_string t))
  | ["QE"; t; k] -> (KLessEq (zi t, zi k), Some (int_of_string t))
  | ["QB"; t; k] -> (KLessEqBy (zi t, cmp_to (zi k)), Some (int_of_string t))
  | ["QT"; t; k] -> (KLessEqBy (zi t, thresh_le (zi k)), Some (int_of_string t))
  | ["G"; t; k] -> (KGet (zi t, zi k), Some (int_of_string t))
  | ["E"] -> (KIsEmpty, None)
  | ["C"] -> (KClear, None)
  | ["V"; t] -> (KExport (zi t), None)
  | _ -> failwith ("unknown key op: " ^ unwords toks)

let fmt_kout = function
  | KONone -> ""
  | KOVal v -> fmt_oval v
  | KOBool b -> if b then "1" else "0"
  | KOList l -> unwords (List.map (fun v -> string_of_int (int_of_z v)) l)

let spec_key (b: bag ref) (o: kop) : string option =
  match o with
  | KIns (k, e, v, _) -> b := { kk = k; kexp = e; kval = v } :: !b; Some ""
  | KLess (t, k) -> Some (fmt_oval (ref_less !b t k))
  | KLessEq (t, k) -> Some (fmt_oval (ref_less_eq !b t k))
  | KLessEqBy (t, f) -> Some (fmt_oval (ref_less_eq_by !b t f))
  | KGet (t, k) -> Some (fmt_oval (ref_get !b t k))
  | KIsEmpty -> None     (* specified as an implication only: a live entry exists -> not empty *)
  | KClear -> b := []; Some ""
  | KExport t -> Some (unwords (List.map (fun v -> string_of_int (int_of_z v)) (ref_export !b t)))

(* ------------------------------------------------------------------ segment tree *)
let fmt_chunks (cs: copy list list) : string =
  let buf = Buffer.create 128 in
  List.iteri (fun i c ->
    if c <> [] then begin
      Buffer.add_string buf (string_of_int i); Buffer.add_char buf ':';
      List.iteri (fun j ((id, e), m) ->
        if j > 0 then Buffer.add_char buf ',';
        Buffer.add_string buf (Printf.sprintf "%d/%d/%s" (int_of_z id) (int_of_z e) (hex_of_n m))) c;
      Buffer.add_char buf ' '
    end) cs;
  String.trim (Buffer.contents buf)

let sort_words s = unwords (List.sort compare (words s))
(* per-place multisets: sort the copies inside each place *)
let canon_chunks (s: string) : string =
  unwords (List.map (fun w ->
    match split_on ":" w with
    | Some (i, body) -> i ^ ":" ^ String.concat "," (List.sort compare (String.split_on_char ',' body))
    | None -> w) (words s))

(* ------------------------------------------------------------------ main loop *)
type hstate =
  | HNone
  | HMap of mkind * mmodel ref * amap ref * n list ref * z list ref
  | HKey of bool (* is_list *) * kmodel ref * bag ref
  | HSeg of seg option ref * sentry list ref * (int * int) (* lo hi *)
  | HDead    (* model or implementation failed earlier in this history: nothing more can be compared *)

let answers : (int, string list ref) Hashtbl.t = Hashtbl.create 16   (* for twin comparison *)
let twin : (int * int) option ref = ref None
let my_answers : string list ref ref = ref (ref [])

let gal_kop (toks: string list) : string =
  let zi s = gz (z_of_int (int_of_string s)) in
  match toks with
  | ["I"; k; e; v; t] -> Printf.sprintf "KIns %s %s %s %s" (zi k) (zi e) (zi v) (zi t)
  | ["QL"; t; k] -> Printf.sprintf "KLess %s %s" (zi t) (zi k)
  | ["QE"; t; k] -> Printf.sprintf "KLessEq %s %s" (zi t) (zi k)
  | ["QB"; t; k] -> Printf.sprintf "KLessEqBy %s (cmp_to %s)" (zi t) (zi k)
  | ["QT"; t; k] -> Printf.sprintf "KLessEqBy %s (fun x => match Z.compare x %s with Gt => Gt | _ => Lt end)" (zi t) (zi k)
  | ["G"; t; k] -> Printf.sprintf "KGet %s %s" (zi t) (zi k)
  | ["E"] -> "KIsEmpty"
  | ["C"] -> "KClear"
  | ["V"; t] -> "KExport " ^ zi t
  | _ -> coq_ok := false; "?"
let gal_kout = function
  | KONone -> "KONone"
  | KOVal v -> "KOVal " ^ gopt gz v
  | KOBool b -> "KOBool " ^ string_of_bool b
  | KOList l -> "KOList " ^ glist gz l
let gal_sop = function
  | SIns (a, b, (id, e)) -> Printf.sprintf "SIns %s %s %s" (gz a) (gz b) (gent (id, e))
  | SQuery (a, b, t, n) -> Printf.sprintf "SQuery %s %s %s %s" (gz a) (gz b) (gz t) (gopt (fun k -> string_of_int (int_of_nat k) ^ "%nat") n)
  | SClear -> "SClear"

let contains (s: string) (sub: string) : bool =
  let n = String.length s and m = String.length sub in
  let rec go i = i + m <= n && (String.sub s i m = sub || go (i + 1)) in go 0

(* distinct non-trivial evaluations: (collection, operation, answer, resulting state) lines not seen
   before in this run whose resulting / observed state is not the empty collection *)
let seen_lines : (Digest.t, unit) Hashtbl.t = Hashtbl.create 65536
let note_distinct op ans snap =
  let nontrivial =
    snap <> "-" && snap <> "" && not (starts_with ". |" snap) && not (starts_with "|" snap)
    && not (starts_with "NOTREE" snap)
    && (not (starts_with "L " snap) || contains snap ":") in
  if nontrivial then begin
    let d = Digest.string (!cur_coll ^ "\000" ^ op ^ "\000" ^ ans ^ "\000" ^ snap) in
    if not (Hashtbl.mem seen_lines d) then (Hashtbl.add seen_lines d (); stat ("distinct_" ^ !cur_coll))
  end

(* ------------------------------------------------------------------ injected panics (C18) *)
let sorted_pairs (l: ment list) = List.sort compare (List.map (fun (a, b) -> (int_of_z a, int_of_z b)) l)
let kent_triple e = (int_of_z e.kk, int_of_z e.kexp, int_of_z e.kval)
let live_view (t: int) (l: kent list) = List.sort compare (List.filter (fun (_, e, _) -> e > t) (List.map kent_triple l))

let parse_keylist_snap (snap: string) : kent list * int =
  match split_on "|" snap with
  | Some (body, mn) ->
    let ws = words body in
    let rec go = function
      | k :: e :: v :: r -> kent_of [k; e; v] :: go r
      | [] -> []
      | _ -> failwith "keylist snapshot" in
    (go ws, int_of_string (String.trim mn))
  | None -> failwith "keylist snapshot"

let parse_chunks (count: int) (places: string list) : copy list list =
  let tbl = Hashtbl.create 16 in
  List.iter (fun w -> match split_on ":" w with
    | Some (i, body) ->
      Hashtbl.replace tbl (int_of_string i)
        (List.map (fun c -> match String.split_on_char '/' c with
           | [id; e; m] -> ((z_of_int (int_of_string id), z_of_int (int_of_string e)), n_of_hex m)
           | _ -> failwith "copy") (String.split_on_char ',' body))
    | None -> ()) places;
  List.init count (fun i -> try Hashtbl.find tbl i with Not_found -> [])

(* The operation [op] was interrupted by a panic injected into a user callback; [snap] is the state
   the collection was left in.  Property: structurally valid, and its observable contents are those
   before the operation or those after it.  Correspondence: the state is one of the model's event
   states.  Afterwards the model adopts the state the implementation is in. *)
let injected (st: hstate ref) (op: string) (snap: string) =
  let toks = words op in
  arena := ANone;
  match !st with
  | HNone | HDead -> ()
  | HMap (k, m, spec, held, held_keys) ->
    (* the view after the operation, on copies *)
    let m2 = ref !m and spec2 = ref !spec in
    (try ignore (run_mapset_op k m2 spec2 (ref !held) (ref !held_keys) toks) with _ -> ());
    let pre = sorted_pairs !spec and post = sorted_pairs !spec2 in
    (match !m with
     | MT s ->
       (match parse_tree_snap ment_of 2 snap with
        | Snap (t, p) ->
          check_inv mkey t p ~force:true;
          let view = List.map (fun (a, b) -> (int_of_z a, int_of_z b)) (ents t) in
          if view = pre then () else if view = post then (m := !m2; spec := !spec2)
          else mismatch "TORN" ~impl:"contents are neither those before nor those after the operation" ~model:"un-torn";
          if not (t = s.root && p = s.pl) then begin
            if view <> post then mismatch "EVSTATE" ~impl:"state after the panic is not the state before the operation" ~model:"every callback of the map / set precedes the first write";
            m := MT { root = t; pl = p }
          end
        | Broken why -> mismatch "INV_LINKS" ~impl:why ~model:"consistent links"
        | NoSnap -> ())
     | ML l ->
       let impl_pairs = (let rec go = function a :: b :: r -> (int_of_string a, (if k.is_set then int_of_string b else int_of_string b)) :: go r | _ -> [] in go (words snap)) in
       if impl_pairs = pre then () else if impl_pairs = post then (m := !m2; spec := !spec2)
       else mismatch "TORN" ~impl:snap ~model:"contents before or after the operation";
       let ms = List.map (fun (a, b) -> (int_of_z a, int_of_z b)) l in
       if impl_pairs <> ms && impl_pairs <> post then mismatch "EVSTATE" ~impl:snap ~model:"state before the operation")
  | HKey (is_list, m, b) ->
    let (o, time) = kop_of_toks toks in
    let t = (match toks, time with
      | ["V"; t], _ -> int_of_string t      (* export works on a copy; the view is taken at its time *)
      | _, Some t -> t
      | _, None -> 0) in
    let b2 = ref !b in
    ignore (spec_key b2 o);
    let pre = live_view t !b and post = live_view t !b2 in
    let subset stored bag = List.for_all (fun e -> List.mem (kent_triple e) (List.map kent_triple bag)) stored in
    (match !m with
     | KT s ->
       (match parse_tree_snap kent_of 3 snap with
        | Snap (tr, p) ->
          check_inv (fun e -> e.kk) tr p ~force:true;
          let stored = ents tr in
          let view = live_view t stored in
          let is_post = (view = post && view <> pre) in
          if view <> pre && view <> post then mismatch "TORN" ~impl:"live contents are neither those before nor those after the operation" ~model:"un-torn"
          else if not (subset stored !b2) then mismatch "TORN" ~impl:"an entry that was never inserted is stored" ~model:"stored entries were inserted";
          if is_post then b := !b2;
          (* one of the model's event states? *)
          let ((s', _), evs) = get (k_step s o) in
          let cands = s :: s' :: List.map (fun (_, es) -> es) evs in
          (match List.find_opt (fun c -> c.kroot = tr && c.kpl = p) cands with
           | Some c -> m := KT c
           | None ->
             mismatch "EVSTATE" ~impl:"state after the panic is none of the states the model passes through at a callback" ~model:"an event state of the model";
             m := KT { kroot = tr; kpl = p })
        | Broken why -> mismatch "INV_LINKS" ~impl:why ~model:"consistent links"
        | NoSnap -> ())
     | KL s ->
       let (buf, mn) = parse_keylist_snap snap in
       let view = live_view t buf in
       if view <> pre && view <> post then mismatch "TORN" ~impl:snap ~model:"live contents before or after the operation"
       else if not (subset buf !b2) then mismatch "TORN" ~impl:"an entry that was never inserted is stored" ~model:"stored entries were inserted";
       if view = post && view <> pre then b := !b2;
       (* still a usable list: sorted by key, cached bound below every stored expiration *)
       let keys = List.map (fun e -> int_of_z e.kk) buf in
       let rec incr_ok = function a :: (b :: _ as r) -> a < b && incr_ok r | _ -> true in
       if not (incr_ok keys) then mismatch "TORN" ~impl:snap ~model:"keys strictly increasing";
       if List.exists (fun e -> int_of_z e.kexp < mn) buf then mismatch "TORN" ~impl:snap ~model:"cached earliest expiration <= every stored expiration";
       (* event states of the list model: the buffer with some expired entries already dropped *)
       let rec subseq a bb = (match a, bb with
         | [], _ -> true
         | _, [] -> false
         | x :: a', y :: b' -> if x = y then subseq a' b' else (int_of_z y.kexp <= t || true) && subseq a b') in
       let (s', _) = kl_step max_exp_i32 s o in
       if not ((subseq buf s.kbuf || buf = s'.kbuf)) then mismatch "EVSTATE" ~impl:snap ~model:"the buffer before the operation with some expired entries dropped";
       ignore is_list;
       m := KL { kbuf = buf; kmin = z_of_int mn })
  | HSeg (m, _, _) ->
    (match !m with
     | None -> ()
     | Some s ->
       (match words snap with
        | "L" :: _ :: _ :: _ :: cnt :: places ->
          let cs = parse_chunks (int_of_string cnt) places in
          let t = (match toks with ["Q"; _; _; t; _] -> int_of_string t | _ -> min_int) in
          let livem c = List.sort compare (List.filter (fun ((_, e), _) -> int_of_z e >= t) c) in
          if List.length cs <> List.length s.chunks then mismatch "TORN" ~impl:snap ~model:"same number of places"
          else begin
            List.iter2 (fun c mc ->
              if livem c <> livem mc then mismatch "TORN" ~impl:snap ~model:"every unexpired copy still stored exactly once per place"
              else if not (List.for_all (fun x -> List.mem x mc) c) then mismatch "TORN" ~impl:snap ~model:"stored copies were inserted") cs s.chunks
          end;
          m := Some { lay = s.lay; chunks = cs }
        | _ -> mismatch "CHUNKS" ~impl:snap ~model:"parsable snapshot"))

let process_op_line (st: hstate ref) (line: string) ~(terminated: bool) =
  match split_on " =>" (line ^ " ") with
  | None ->
    cur_op := String.trim line; incr cur_step;
    if not terminated then mismatch "CRASH" ~impl:"process ended while this operation was running (abort / crash / kill)" ~model:"normal return"
  | Some (op, rest) ->
    let forked = starts_with "~ " op in
    let op = if forked then String.sub op 2 (String.length op - 2) else op in
    cur_op := op;
    let (body, snap) = (match split_on "##" rest with Some (c, s) -> (c, s) | None -> (rest, "-")) in
    let (ans, calls) = (match split_on " @" (" " ^ body ^ " ") with Some (a, r) -> (a, r) | None -> (body, "")) in
    if op = "N" then begin
      (* creation line *)
      (match !st with
       | HMap (k, m, _, _, _) ->
         (match !m with
          | MT s -> compare_tree_snap !cur_coll mkey (parse_tree_snap ment_of 2 snap) s.root s.pl; raw_map snap
          | ML _ -> ())
       | HKey (false, m, _) ->
         (match !m with KT s -> compare_tree_snap !cur_coll (fun e -> e.kk) (parse_tree_snap kent_of 3 snap) s.kroot s.kpl; raw_key snap | _ -> ())
       | HSeg (m, _, (lo, hi)) ->
         (* C14 evaluated directly on what the implementation built; arithmetic on the extracted Z
            (domain lengths reach 2^62, beyond OCaml's native integers) *)
         let zlo = z_of_int lo and zhi = z_of_int hi in
         let zlen = Model.Z.add (Model.Z.sub zhi zlo) (z_of_int 1) in
         let zlt a b = Model.Z.ltb a b and zle a b = Model.Z.leb a b in
         stat "layouts";
         if (ans = "none") <> (zle zlen (z_of_int 16)) then mismatch "LAYOUTSPEC" ~impl:(Printf.sprintf "new over [%d, %d] -> %s" lo hi ans) ~model:"failure exactly for 16 or fewer points";
         (match words snap with
          | ["L"; mn; mx; sc; cnt] ->
            let mn = int_of_string mn and mx = int_of_string mx and sc = int_of_string sc and cnt = int_of_string cnt in
            let shr a k = Model.Z.shiftr a (z_of_int k) in
            let lm1 = Model.Z.sub zlen (z_of_int 1) in
            let top = shr (Model.Z.sub zhi zlo) sc in
            (* 32 * 2^sc >= len  <=>  (len-1) >> sc < 32 ; smallest: sc = 0 or (len-1) >> (sc-1) >= 32 *)
            if mn <> lo || mx <> hi || sc < 0 || sc > 58 || not (zlt (shr lm1 sc) (z_of_int 32))
               || (sc > 0 && zlt (shr lm1 (sc - 1)) (z_of_int 32))
               || Model.Z.compare (z_of_int cnt) (Model.Z.add top (z_of_int 32)) <> Eq || not (zle top (z_of_int 31)) then
              mismatch "LAYOUTSPEC" ~impl:snap ~model:"buckets of the smallest power-of-two width for which 32 cover the domain; one place per heap node up to bucket(hi)"
          | _ -> ());
         let model = (match !m with None -> "none" | Some _ -> "ok") in
         if ans <> model then mismatch "LAYOUT" ~impl:("new -> " ^ ans) ~model:("new -> " ^ model);
         (match !m with
          | Some s ->
            let expect = Printf.sprintf "L %d %d %d %d" (int_of_z s.lay.lmin) (int_of_z s.lay.lmax) (int_of_z s.lay.lscale) (List.length s.chunks) in
            if snap <> expect then mismatch "LAYOUT" ~impl:snap ~model:expect
          | None -> ())
       | _ -> ())
    end else begin
      incr cur_step;
      stat ("ops_" ^ !cur_coll);
      note_distinct op ans snap;
      let restore = (match !st with
        | HKey (_, m, b) when forked -> let sm = !m and sb = !b and sa = !arena in (fun () -> m := sm; b := sb; arena := sa)
        | _ -> (fun () -> ())) in
      if starts_with "!" ans then coq_ok := false;
      if contains ans "!NONTERMINATING" then mismatch "HANG" ~impl:ans ~model:"the walk ends at the empty sentinel";
      if starts_with "!HANG" ans then begin
        mismatch "HANG" ~impl:ans ~model:"the operation returns"; st := HDead
      end else if starts_with "!PANIC" ans then begin
        mismatch "PANIC" ~impl:ans ~model:"normal return"; st := HDead
      end else if starts_with "!INJECTED" ans then begin
        stat "injections";
        (try injected st op snap with
         | Model_err e -> mismatch "MODELERR" ~impl:ans ~model:("model returned " ^ e); st := HDead
         | Failure e -> mismatch "RUNNER" ~impl:line ~model:("runner failure: " ^ e); st := HDead
         | Not_found -> mismatch "RUNNER" ~impl:line ~model:"runner failure: Not_found"; st := HDead)
      end else
      (try
        (match !st with
        | HNone | HDead -> ()
        | HMap (k, m, spec, held, held_keys) ->
          let toks = words op in
          let (ma, sa) = run_mapset_op k m spec held held_keys toks in
          !my_answers := no_handles ans :: !(!my_answers);
          if no_handles ans <> no_handles ma then mismatch "ANS" ~impl:ans ~model:ma;
          if no_handles ans <> sa then mismatch "SPEC" ~impl:(no_handles ans) ~model:sa;
          if only_handles ans <> only_handles ma then mismatch "HANDLES" ~impl:ans ~model:ma;
          (* the abstraction of the implementation's state is the specification's state *)
          let sorted_spec = lazy (List.sort compare (List.map (fun (a, b) -> (int_of_z a, int_of_z b)) !spec)) in
          let fmt_pairs l = unwords (List.map (fun (a, b) -> Printf.sprintf "%d %d" a b) l) in
          (match !m with
           | MT _ ->
             (match parse_tree_snap ment_of 2 snap with
              | Snap (t, _) ->
                let impl_ents = List.map (fun (a, b) -> (int_of_z a, int_of_z b)) (ents t) in
                if impl_ents <> Lazy.force sorted_spec then mismatch "ABS" ~impl:(fmt_pairs impl_ents) ~model:(fmt_pairs (Lazy.force sorted_spec))
              | _ -> ())
           | ML _ -> if snap <> "-" && snap <> fmt_pairs (Lazy.force sorted_spec) then mismatch "ABS" ~impl:snap ~model:(fmt_pairs (Lazy.force sorted_spec)));
          (match !m with
           | MT s -> compare_tree_snap !cur_coll mkey (parse_tree_snap ment_of 2 snap) s.root s.pl; raw_map snap
           | ML l ->
             if snap <> "-" then begin
               let ms = unwords (List.map (fun (a, b) -> Printf.sprintf "%d %d" (int_of_z a) (int_of_z b)) l) in
               stat "snapshots";
               if snap <> ms then mismatch "STATE" ~impl:snap ~model:ms
             end)
        | HKey (is_list, m, b) ->
          let toks = words op in
          let (o, time) = kop_of_toks toks in
          let (mout, mcalls, mcap) =
            (match !m with
             | KT s ->
               (* an operation on a copy: the copy hook keeps the capacities, so the model state is simply reused *)
               ignore forked;
               let ((s', out), evs) = get (k_step s o) in
               m := KT s';
               arena_kstep o out;
               if forked then coq_ok := false else coq_log (gal_kop toks) (gal_kout out);
               let calls = List.filter_map (fun ((kind, e), _) -> match kind with EvCmp -> Some (Printf.sprintf "%d:%d" (int_of_z e.kk) (int_of_z e.kexp)) | EvExp -> None) evs in
               (fmt_kout out, Some calls, int_of_n (k_export_capacity s))
             | KL s ->
               let (s', out) = kl_step max_exp_i32 s o in
               m := KL s';
               if forked then coq_ok := false else coq_log (gal_kop toks) (gal_kout out);
               (fmt_kout out, None, (match o with KExport t -> List.length (kl_clear_expired max_exp_i32 s t).kbuf | _ -> 0))) in
          let ans_nocap = unwords (List.filter (fun w -> not (is_cap w)) (words ans)) in
          !my_answers := ans_nocap :: !(!my_answers);
          if ans_nocap <> mout then mismatch "ANS" ~impl:ans_nocap ~model:mout;
          (match spec_key b o with
           | Some sa -> if ans_nocap <> sa then mismatch "SPEC" ~impl:ans_nocap ~model:sa
           | None ->
             (* is_empty: a live entry (at any time >= the last one seen) forbids "empty" *)
             ());
          (* export capacity *)
          (match o with
           | KExport _ ->
             let cap = (match List.find_opt is_cap (words ans) with Some w -> int_of_string (String.sub w 3 (String.length w - 3)) | None -> -1) in
             let stored = (match !m with KT s -> int_of_nat (ksize s) | KL s -> List.length s.kbuf) in
             stat "exports";
             if cap > 4 * stored + 16 then mismatch "CAPBOUND" ~impl:(Printf.sprintf "capacity %d for %d stored entries" cap stored) ~model:"<= 4*n + 16";
             if cap <> mcap then mismatch "CAP" ~impl:(string_of_int cap) ~model:(string_of_int mcap)
           | _ -> ());
          (* stored keys handed to user comparison code *)
          let seen = (match split_on "#" calls with Some (s, _) -> words s | None -> words calls) in
          (match time with
           | Some t ->
             List.iter (fun w -> match split_on ":" w with
               | Some (_, e) -> stat "keys_seen"; if int_of_string e <= t then mismatch "LIVEONLY" ~impl:(Printf.sprintf "comparison saw stored key %s at time %d" w t) ~model:"exp > t"
               | None -> ()) seen
           | None -> ());
          (match mcalls with
           | Some mc -> if List.sort_uniq compare seen <> List.sort_uniq compare mc then mismatch "CALLS" ~impl:(unwords seen) ~model:(unwords mc)
           | None -> ());
          (match !m with
           | KT s -> compare_tree_snap !cur_coll (fun e -> e.kk) (parse_tree_snap kent_of 3 snap) s.kroot s.kpl; raw_key snap
           | KL s ->
             if snap <> "-" then begin
               let ms = String.concat "" (List.map (fun e -> Printf.sprintf "%d %d %d " (int_of_z e.kk) (int_of_z e.kexp) (int_of_z e.kval)) s.kbuf) ^ Printf.sprintf "| %d" (int_of_z s.kmin) in
               stat "snapshots";
               if snap <> ms then mismatch "STATE" ~impl:snap ~model:ms
             end)
        | HSeg (m, inserted, (lo, hi)) ->
          (match !m with
           | None -> ()
           | Some s ->
             let zi x = z_of_int (int_of_string x) in
             let toks = words op in
             let (so, full_domain_t) = (match toks with
               | ["I"; a; b; id; e] -> inserted := !inserted @ [((zi a, zi b), (zi id, zi e))]; (SIns (zi a, zi b, (zi id, zi e)), None)
               | ["Q"; a; b; t; n] ->
                 let n' = int_of_string n in
                 (SQuery (zi a, zi b, zi t, (if n' < 0 then None else Some (nat_of_int n'))),
                  (if n' < 0 && int_of_string a = lo && int_of_string b = hi then Some (int_of_string t) else None))
               | ["C"] -> inserted := []; (SClear, None)
               | _ -> failwith ("unknown seg op: " ^ unwords toks)) in
             let (s', out) = get (seg_step s so) in
             m := Some s';
             coq_log (gal_sop so) (glist (fun (id, e) -> gent (id, e)) out);
             let mout = unwords (List.map (fun (id, _) -> string_of_int (int_of_z id)) out) in
             !my_answers := sort_words ans :: !(!my_answers);
             if sort_words ans <> sort_words mout then mismatch "ANS" ~impl:ans ~model:mout
             else if ans <> mout then mismatch "ORDER" ~impl:ans ~model:mout;
             (* reference semantics *)
             (match so with
              | SQuery (a, b, t, n) ->
                stat "seg_queries";
                let expect = List.map (fun (id, _) -> string_of_int (int_of_z id)) (ref_query s.lay !inserted a b t) in
                let got = words ans in
                (match n with
                 | None -> if List.sort compare got <> List.sort compare expect then mismatch "SPEC" ~impl:ans ~model:(unwords expect)
                 | Some k ->
                   let k = int_of_nat k in
                   let want = min k (List.length expect) in
                   let sorted = List.sort compare got in
                   let dup = List.length (List.sort_uniq compare got) <> List.length got in
                   ignore sorted;
                   if dup || List.length got <> want || not (List.for_all (fun g -> List.mem g expect) got) then
                     mismatch "SPEC" ~impl:ans ~model:(Printf.sprintf "%d distinct elements of {%s}" want (unwords expect)))
              | _ -> ());
             (* stored copies *)
             (match split_on " " (snap ^ " ") with
              | _ when snap = "-" -> ()
              | _ ->
                let ws = words snap in
                (match ws with
                 | "L" :: _ :: _ :: _ :: _ :: places ->
                   stat "snapshots";
                   let impl_places = unwords places in
                   let model_places = fmt_chunks s'.chunks in
                   if canon_chunks impl_places <> canon_chunks model_places then mismatch "CHUNKS" ~impl:impl_places ~model:model_places
                   else if impl_places <> model_places then mismatch "CHUNKORDER" ~impl:impl_places ~model:model_places;
                   (* C15: the places that received the new value tile its bucket range; at most 8 copies *)
                   (match so with
                    | SIns (a, b, (id, _)) ->
                      stat "tiling_checks";
                      let ids = string_of_int (int_of_z id) ^ "/" in
                      let ps = List.filter_map (fun w -> match split_on ":" w with
                        | Some (i, body) -> if List.exists (fun c -> starts_with ids c) (String.split_on_char ',' body) then Some (n_of_int (int_of_string i)) else None
                        | None -> None) places in
                      if not (tiles_ok ps (lindex s.lay a) (lindex s.lay b)) then
                        mismatch "TILING" ~impl:(unwords (List.map (fun p -> string_of_int (int_of_n p)) ps))
                          ~model:(Printf.sprintf "at most 8 places tiling buckets %d..%d exactly" (int_of_n (lindex s.lay a)) (int_of_n (lindex s.lay b)))
                    | _ -> ());
                   (* C16: after a fully consumed whole-domain query nothing expired is stored *)
                   (match full_domain_t with
                    | Some t ->
                      stat "purge_checks";
                      let copies = List.concat_map (fun w -> match split_on ":" w with Some (_, body) -> String.split_on_char ',' body | None -> []) places in
                      let live_vals = List.length (List.filter (fun (_, (_, e)) -> int_of_z e >= t) !inserted) in
                      List.iter (fun c -> match String.split_on_char '/' c with
                        | [_; e; _] -> if int_of_string e < t then mismatch "PURGE" ~impl:("expired copy still stored: " ^ c) ~model:(Printf.sprintf "every stored copy has exp >= %d" t)
                        | _ -> ()) copies;
                      if List.length copies > 8 * live_vals then mismatch "PURGE" ~impl:(Printf.sprintf "%d copies stored" (List.length copies)) ~model:(Printf.sprintf "<= 8 * %d unexpired values" live_vals)
                    | None -> ())
                 | _ -> mismatch "CHUNKS" ~impl:snap ~model:"parsable snapshot")))
        ); restore ()
      with
      | Model_err e -> coq_ok := false; mismatch "MODELERR" ~impl:ans ~model:("model returned " ^ e); st := HDead
      | Failure e -> coq_ok := false; mismatch "RUNNER" ~impl:line ~model:("runner failure: " ^ e); st := HDead
      | Not_found -> coq_ok := false; mismatch "RUNNER" ~impl:line ~model:"runner failure: Not_found"; st := HDead
      | Invalid_argument e -> coq_ok := false; mismatch "RUNNER" ~impl:line ~model:("runner failure: " ^ e); st := HDead)
    end

let coq_emit () =
  (match coq_file with
   | Some _ when !coq_ok && !coq_emitted < coq_max && !coq_ops <> [] && List.length !coq_ops <= 80 ->
     let ops = "[" ^ String.concat ";\n      " (List.rev !coq_ops) ^ "]" in
     let outs = "[" ^ String.concat ";\n      " (List.rev !coq_outs) ^ "]" in
     incr coq_emitted;
     let name = Printf.sprintf "xcheck_%d" !coq_emitted in
     (match !coq_kind with
      | "mtree" -> Buffer.add_string coq_buf (Printf.sprintf "Example %s : exists s, m_run (m_new %s) %s\n  = Ret (s, %s).\nProof. eexists. vm_compute. reflexivity. Qed.\n\n" name !coq_head ops outs)
      | "mlist" -> Buffer.add_string coq_buf (Printf.sprintf "Example %s : exists s, ml_run [] %s\n  = Ret (s, %s).\nProof. eexists. vm_compute. reflexivity. Qed.\n\n" name ops outs)
      | "ktree" -> Buffer.add_string coq_buf (Printf.sprintf "Example %s : exists s, k_run (k_new %s) %s\n  = Ret (s, %s).\nProof. eexists. vm_compute. reflexivity. Qed.\n\n" name !coq_head ops outs)
      | "klist" -> Buffer.add_string coq_buf (Printf.sprintf "Example %s : snd (kl_run 2147483647%%Z (kl_new 2147483647%%Z) %s)\n  = %s.\nProof. vm_compute. reflexivity. Qed.\n\n" name ops outs)
      | "seg" -> Buffer.add_string coq_buf (Printf.sprintf "Example %s : exists s0 s, seg_new %s = Some s0 /\\ seg_run s0 %s\n  = Ret (s, %s).\nProof. do 2 eexists. split; [vm_compute; reflexivity|vm_compute; reflexivity]. Qed.\n\n" name !coq_head ops outs)
      | _ -> decr coq_emitted)
   | _ -> ());
  coq_ok := false; coq_ops := []; coq_outs := []

let finish_history () =
  coq_emit ();
  (match !twin with
   | Some (h, off) ->
     (match Hashtbl.find_opt answers h with
      | Some other ->
        let a = List.rev !other and b = List.rev !(!my_answers) in
        let rec drop k l = if k = 0 then l else match l with _ :: r -> drop (k - 1) r | [] -> [] in
        let a' = drop off a in
        stat "twins";
        if a' <> b then begin
          let rec first i = function
            | x :: xs, y :: ys -> if x <> y then (i, x, y) else first (i + 1) (xs, ys)
            | _ -> (i, "<length>", "<length>") in
          let (i, x, y) = first 0 (a', b) in
          cur_step := i + 1;
          mismatch "TWIN" ~impl:(Printf.sprintf "after clear: %s" x) ~model:(Printf.sprintf "fresh instance: %s" y)
        end
      | None -> ())
   | None -> ())

let () =
  let ic = if Array.length Sys.argv > 1 then open_in Sys.argv.(1) else stdin in
  let st = ref HNone in
  let ended = ref false in
  let pending : string option ref = ref None in
  let flush_pending ~terminated = (match !pending with Some l -> process_op_line st l ~terminated; pending := None | None -> ()) in
  (try
    while true do
      let line = input_line ic in
      if starts_with "H " line then begin
        flush_pending ~terminated:true;
        finish_history ();
        stat "histories";
        match words line with
        | "H" :: coll :: hid :: rest ->
          cur_coll := coll; cur_hist := int_of_string hid; cur_step := 0;
          let rec params acc = function
            | "twin" :: a :: b :: r -> twin := Some (int_of_string a, int_of_string b); params acc r
            | "inject" :: _ :: r -> params acc r
            | x :: r -> params (acc @ [int_of_string x]) r
            | [] -> acc in
          twin := None;
          let ps = params [] rest in
          my_answers := ref [];
          Hashtbl.replace answers !cur_hist !my_answers;
          if Hashtbl.length answers > 64 then Hashtbl.remove answers (!cur_hist - 64);
          let cap = (match ps with c :: _ -> c | [] -> 0) in
          peak := 0; cap_hint := cap;
          coq_ops := []; coq_outs := [];
          coq_ok := (coq_file <> None && !twin = None && not (List.mem "inject" (words line)));
          (match coll with
           | "maptree" | "settree" -> coq_kind := "mtree"; coq_head := Printf.sprintf "%d%%N" cap
           | "maplist" | "setlist" -> coq_kind := "mlist"
           | "keytree" -> coq_kind := "ktree"; coq_head := Printf.sprintf "%d%%N" cap
           | "keylist" -> coq_kind := "klist"
           | "seg" -> (match ps with [lo; hi] -> coq_kind := "seg"; coq_head := Printf.sprintf "(%d)%%Z (%d)%%Z" lo hi | _ -> coq_kind := "")
           | _ -> coq_kind := "");
          arena := (match coll with
            | "maptree" | "settree" -> AMap (empty_arena mdflt, tree_pool_new (n_of_int cap))
            | "keytree" -> AKey (empty_arena kdflt, tree_pool_new (n_of_int cap))
            | _ -> ANone);
          st := (match coll with
            | "maptree" -> HMap ({ is_set = false; is_list = false }, ref (MT (m_new (n_of_int cap))), ref [], ref [], ref [])
            | "settree" -> HMap ({ is_set = true; is_list = false }, ref (MT (m_new (n_of_int cap))), ref [], ref [], ref [])
            | "maplist" -> HMap ({ is_set = false; is_list = true }, ref (ML []), ref [], ref [], ref [])
            | "setlist" -> HMap ({ is_set = true; is_list = true }, ref (ML []), ref [], ref [], ref [])
            | "keytree" -> HKey (false, ref (KT (k_new (n_of_int cap))), ref [])
            | "keylist" -> HKey (true, ref (KL (kl_new max_exp_i32)), ref [])
            | "seg" -> (match ps with [lo; hi] -> HSeg (ref (seg_new (z_of_int lo) (z_of_int hi)), ref [], (lo, hi)) | _ -> failwith "seg params")
            | _ -> failwith ("unknown collection " ^ coll))
        | _ -> failwith "bad H line"
      end
      else if starts_with "#END" line then (flush_pending ~terminated:true; ended := true)
      else if starts_with "#CRASH" line then begin
        (* the harness process died here and was restarted after this history *)
        (match !pending with
         | Some _ -> flush_pending ~terminated:false
         | None -> mismatch "CRASH" ~impl:("the harness process died between operations: " ^ line) ~model:"normal termination");
        st := HDead
      end
      else if starts_with "#" line then ()
      else begin
        flush_pending ~terminated:true;
        pending := Some line
      end
    done
  with End_of_file -> ());
  flush_pending ~terminated:!ended;
  if not !ended then begin
    (* the harness died: the last line (complete or not) names the operation in flight *)
    if not (Hashtbl.fold (fun k _ acc -> acc || starts_with "CRASH " k) counts false) then
      mismatch "CRASH" ~impl:"trace ends without #END (the harness process died)" ~model:"normal termination"
  end;
  finish_history ();
  Hashtbl.iter (fun k v -> match String.split_on_char ' ' k with
    | [l; c; o] -> Printf.printf "COUNT level=%s coll=%s opk=%s n=%d\n" l c o v
    | _ -> Printf.printf "COUNT level=%s coll=- opk=- n=%d\n" k v) counts;
  (match coq_file with
   | Some f ->
     let oc = open_out f in
     output_string oc "From Coq Require Import List NArith ZArith.\nImport ListNotations.\nRequire Import ITree.Model.Common ITree.Model.RBTree ITree.Model.Pool ITree.Model.MapModel ITree.Model.KeyModel ITree.Model.ListModel ITree.Model.SegModel.\n\n";
     Buffer.output_buffer oc coq_buf; close_out oc;
     Printf.printf "STAT coq_examples=%d\n" !coq_emitted
   | None -> ());
  Hashtbl.iter (fun k v -> Printf.printf "STAT %s=%d\n" k v) stats
