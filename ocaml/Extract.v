(** Extraction of the executable model, the reference semantics and the invariant checkers.
    ExtrOcamlBasic only: N, Z, positive and nat stay the extracted inductive datatypes. *)
Require Import ExtrOcamlBasic.
Require Import ITree.Model.Common ITree.Model.RBTree ITree.Model.Pool ITree.Model.MapModel
  ITree.Model.KeyModel ITree.Model.ListModel ITree.Model.Heap ITree.Model.SegModel
  ITree.Model.Checkers ITree.Spec.Spec ITree.Model.ArenaModel ITree.Model.ArenaDelete
  ITree.Model.ArenaKey ITree.Model.ArenaQuery ITree.Model.ArenaKeyRun.
Extraction Language OCaml.
Extraction "model.ml"
  m_new m_step m_run cmp_to
  k_new k_step k_run k_export_capacity old_export_capacity
  ml_step ml_run kl_new kl_step kl_run kl_clear_expired
  seg_new seg_step seg_run lcount insert_mask intersect_mask place_mask visit_mask bits lowbit
  rb_ok bst_ok height_ok pool_ok rb_bh tiles_ok lindex
  elements slots ents keys size height level_order ent_at
  a_insert a_remove a_lookup a_update a_pred a_pred_by a_next a_prev
  alive ref_less ref_less_eq ref_less_eq_by ref_get ref_export
  bucket_overlap ref_query
  arena_m_step empty_arena tree_pool_new
  arena_k_step.
