"""Per-property configuration of the correspondence stage.

predicate : mismatch kinds (levels, collections, op kinds) that are a failure of the property's own
            predicate on the IMPLEMENTATION (reference semantics / invariant checker / process
            outcome): a concrete failing input.
corr      : mismatch kinds between model and implementation at the observation level the
            property's theorems rely on: the property is no longer shown to hold.
batches   : (build, generator profile, histories, size, env) per tier.
Levels are produced by ocaml/run.ml.
"""
TREES = ['maptree', 'settree', 'keytree']
LISTS = ['maplist', 'setlist', 'keylist']
ALL = TREES + LISTS + ['seg']
DEAD = ['PANIC', 'CRASH', 'HANG']          # the operation did not return normally
MODEL = ['MODELERR', 'RUNNER', 'EXTRACT', 'ARENA', 'ARENA_OUT', 'ARENA_ERR']   # ARENA*: the arena-level models against the raw buffer (DESIGN.md 4.6)

AXIOM_ALLOW = set()   # the development is axiom-free; any stdlib axiom needed would be named here

TRUSTED_BASE = [
    'Coq 8.16.1 kernel (coqc; vm_compute used for finite sweeps and examples; native_compute not used)',
    'no axioms: Print Assumptions of every property theorem must be "Closed under the global context"',
    'extraction: ExtrOcamlBasic only (Extract Inductive bool/option/unit/list/prod/sumbool/sumor, Extract Inlined Constant andb/orb); no Extract Constant of our own; OCaml 4.13.1',
    'hand-written OCaml driver ocaml/run.ml (parsing, int<->N/Z conversion, comparison, printing)',
    'Rust harness /verif/harness and the read-only hooks behind cargo feature itree_verif (commit ea6fd43)',
    'this orchestrator (/verif/check, lib/propdefs.py)',
    'rustc/cargo/std as installed: Vec growth policy, binary_search_by contract, swap_remove, retain',
    'the hand-written Gallina models (tree level, and the statement-by-statement arena-level transcriptions Model/Arena*.v proved to refine it) are tied to the code only by the correspondence run (DESIGN.md section 8); the arena-level models are themselves executed and compared with the raw buffer of the implementation, every field of every slot (DESIGN.md section 4.6)',
]


SNAPK = {'ITV_SNAP_EVERY': '1000000', 'ITV_SNAP_KINDS': 'I,C'}


BIGENV = {'ITV_SNAP_EVERY': '50', 'ITV_SNAP_KINDS': 'C', 'ITV_HIST_TIMEOUT': '60'}


def big(kinds, tier, build='release'):
    """large-state histories (harness/src/big.rs): kinds among map, set, key"""
    # the template of history i of a batch is (seed + i) mod 6 (map, set) / mod 5 (key): consecutive
    # batches (consecutive seeds) and histories cycle through all of them
    shards, n, scale = (6, 2, 1600) if tier == 'quick' else (12, 4, 0)
    return [(build, 'big' + k, n, scale, BIGENV) for k in kinds for _ in range(shards)]


def seg32(build='release', shards=12):
    return [(build, 'seg32', shards, k, SNAPK) for k in range(shards)]


def layout(build='debug', shards=6, deep=False):
    return [(build, 'layout', shards, k + (shards if deep else 0), SNAPK) for k in range(shards)]


def P(colls, predicate, corr, quick, thorough, **kw):
    d = dict(colls=colls, predicate=predicate, corr=[(MODEL, None, None)] + corr,
             batches=dict(quick=quick, thorough=thorough))
    d.update(kw)
    ex = d.pop('extra', None)
    if ex:
        d['batches'] = dict(quick=quick + ex['quick'], thorough=thorough + ex['thorough'])
    return d


KQ = ['QL', 'QE', 'QB', 'QT']
PROPS = {
    'C01': P(['keytree'],
             [(['SPEC'] + DEAD, ['keytree'], KQ)],
             [(['ANS'], ['keytree'], KQ)],
             [('debug', 'key', 400, 80, None), ('release', 'key', 60, 600, None), ('release', 'keyx', 1, 3, None)],
             [('debug', 'key', 4000, 80, None), ('release', 'key', 600, 600, None), ('release', 'key', 40, 8000, {'ITV_SNAP_EVERY': '16'}), ('release', 'keyx', 1, 4, None)],
             sample_ops=KQ, extra=dict(quick=[('debug', 'keyedge', 150, 80, None)], thorough=[('debug', 'keyedge', 1500, 80, None), ('release', 'keyedge', 100, 600, None)])),
    'C02': P(TREES,
             [(['INV_RB', 'INV_BST', 'INV_HEIGHT', 'INV_LINKS'], TREES, None)],
             [(['SHAPE'], TREES, None)],
             [('debug', 'map', 200, 80, None), ('debug', 'set', 200, 80, None), ('debug', 'key', 200, 80, None),
              ('release', 'map', 30, 1500, None), ('release', 'set', 30, 1500, None), ('release', 'key', 30, 1500, None),
              ('release', 'mapx', 1, 5, None), ('release', 'setx', 1, 5, None), ('release', 'keyx', 1, 3, None)],
             [('debug', 'map', 2000, 80, None), ('debug', 'set', 2000, 80, None), ('debug', 'key', 2000, 80, None),
              ('release', 'map', 300, 1500, None), ('release', 'set', 300, 1500, None), ('release', 'key', 300, 1500, None),
              ('release', 'map', 20, 20000, {'ITV_SNAP_EVERY': '64'}), ('release', 'key', 20, 20000, {'ITV_SNAP_EVERY': '64'}),
              ('release', 'mapx', 1, 6, None), ('release', 'setx', 1, 6, None), ('release', 'keyx', 1, 4, None)],
             sample_ops=['I', 'D', 'X'], extra=dict(quick=[('debug', 'keyedge', 150, 80, None), ('debug', 'mapedge', 60, 80, None)], thorough=[('debug', 'keyedge', 1500, 80, None), ('release', 'keyedge', 100, 600, None), ('debug', 'mapedge', 600, 80, None)])),
    'C03': P(['seg'],
             [(['SPEC'] + DEAD, ['seg'], ['Q'])],
             [(['ANS'], ['seg'], ['Q'])],
             [('debug', 'seg', 600, 40, None), ('release', 'seg', 100, 400, None), ] + seg32(),
             [('debug', 'seg', 6000, 40, None), ('release', 'seg', 1500, 400, None), ] + seg32(),
             sample_ops=['Q'], extra=dict(quick=[('debug', 'segwide', 150, 50, None)], thorough=[('debug', 'segwide', 1500, 50, None), ('release', 'segwide', 200, 400, None)])),
    'C04': P(['maptree'],
             [(['SPEC'] + DEAD, ['maptree'], ['G', 'E', 'I', 'D', 'C']), (['ABS'], ['maptree'], ['I', 'D', 'C', 'G', 'E'])],
             [(['ANS'], ['maptree'], ['G', 'E'])],
             [('debug', 'map', 400, 80, None), ('release', 'map', 40, 1500, None), ('release', 'mapx', 1, 5, None)],
             [('debug', 'map', 4000, 80, None), ('release', 'map', 400, 1500, None), ('release', 'mapx', 1, 6, None)],
             sample_ops=['G', 'D', 'I'], extra=dict(quick=[('debug', 'mapedge', 60, 80, None)], thorough=[('debug', 'mapedge', 600, 80, None)])),
    'C05': P(['settree'],
             [(['SPEC'] + DEAD, ['settree'], ['G', 'E', 'I', 'D', 'C']), (['ABS'], ['settree'], ['I', 'D', 'C', 'G', 'E'])],
             [(['ANS'], ['settree'], ['G', 'E'])],
             [('debug', 'set', 400, 80, None), ('release', 'set', 40, 1500, None), ('release', 'setx', 1, 5, None)],
             [('debug', 'set', 4000, 80, None), ('release', 'set', 400, 1500, None), ('release', 'setx', 1, 6, None)],
             sample_ops=['G', 'D', 'I'], extra=dict(quick=[('debug', 'mapedge', 60, 80, None)], thorough=[('debug', 'mapedge', 600, 80, None)])),
    'C06': P(['keytree'],
             [(['SPEC'] + DEAD, ['keytree'], ['G'])],
             [(['ANS'], ['keytree'], ['G'])],
             [('debug', 'key', 400, 80, None), ('release', 'key', 60, 600, None), ('release', 'keyx', 1, 3, None)],
             [('debug', 'key', 4000, 80, None), ('release', 'key', 600, 600, None), ('release', 'keyx', 1, 4, None)],
             sample_ops=['G'], extra=dict(quick=[('debug', 'keyedge', 150, 80, None)], thorough=[('debug', 'keyedge', 1500, 80, None), ('release', 'keyedge', 100, 600, None)])),
    'C07': P(['keytree', 'keylist'],
             [(['SPEC'] + DEAD, ['keytree', 'keylist'], ['V'])],
             [(['ANS'], ['keytree', 'keylist'], ['V'])],
             [('debug', 'key', 400, 80, None), ('release', 'key', 60, 600, None), ('release', 'keyx', 1, 3, None)],
             [('debug', 'key', 4000, 80, None), ('release', 'key', 600, 600, None), ('release', 'keyx', 1, 4, None)],
             sample_ops=['V'], extra=dict(quick=[('debug', 'keyedge', 150, 80, None)], thorough=[('debug', 'keyedge', 1500, 80, None), ('release', 'keyedge', 100, 600, None)])),
    'C08': P(['maptree', 'settree'],
             [(['SPEC', 'ABS'] + DEAD, ['maptree', 'settree'], ['F', 'FB', 'FT', 'W', 'X'])],
             [(['ANS'], ['maptree', 'settree'], ['F', 'FB', 'FT', 'W', 'X'])],
             [('debug', 'map', 300, 80, None), ('debug', 'set', 300, 80, None), ('release', 'mapx', 1, 5, None), ('release', 'setx', 1, 5, None)],
             [('debug', 'map', 3000, 80, None), ('debug', 'set', 3000, 80, None), ('release', 'map', 300, 1500, None), ('release', 'set', 300, 1500, None), ('release', 'mapx', 1, 6, None), ('release', 'setx', 1, 6, None)],
             sample_ops=['F', 'FB', 'FT', 'W', 'X'], extra=dict(quick=[('debug', 'mapedge', 60, 80, None)], thorough=[('debug', 'mapedge', 600, 80, None)])),
    'C09': P(['settree'],
             [(['SPEC'] + DEAD, ['settree'], ['A', 'B', 'WF', 'WB'])],
             [(['ANS'], ['settree'], ['A', 'B', 'WF', 'WB'])],
             [('debug', 'set', 400, 80, None), ('release', 'set', 40, 1500, None), ('release', 'setx', 1, 5, None)],
             [('debug', 'set', 4000, 80, None), ('release', 'set', 400, 1500, None), ('release', 'setx', 1, 6, None)],
             sample_ops=['A', 'B', 'WF', 'WB'], extra=dict(quick=[('debug', 'mapedge', 60, 80, None)], thorough=[('debug', 'mapedge', 600, 80, None)])),
    'C10': P(ALL,
             [(DEAD + ['INV_LINKS'], ALL, None)],
             [(['SHAPE', 'STATE', 'CHUNKS', 'LAYOUT'], ALL, None)],
             [('debug', 'map', 150, 80, None), ('debug', 'set', 150, 80, None), ('debug', 'key', 150, 80, None), ('debug', 'seg', 300, 40, None),
              ('release', 'map', 30, 1500, None), ('release', 'set', 30, 1500, None), ('release', 'key', 30, 1500, None), ('release', 'seg', 100, 400, None),
              ('debug', 'mapx', 1, 4, None), ('debug', 'setx', 1, 4, None), ('debug', 'keyx', 1, 3, None), ] + layout(),
             [('debug', 'map', 1500, 80, None), ('debug', 'set', 1500, 80, None), ('debug', 'key', 1500, 80, None), ('debug', 'seg', 3000, 40, None),
              ('release', 'map', 300, 1500, None), ('release', 'set', 300, 1500, None), ('release', 'key', 300, 1500, None), ('release', 'seg', 1000, 400, None),
              ('debug', 'mapx', 1, 5, None), ('debug', 'setx', 1, 5, None), ('debug', 'keyx', 1, 4, None), ] + layout() + seg32('debug'),
             corpus_builds=['debug', 'release'], extra=dict(quick=[('debug', 'keyedge', 150, 80, None), ('debug', 'mapedge', 60, 80, None), ('debug', 'segwide', 150, 50, None)], thorough=[('debug', 'keyedge', 1500, 80, None), ('release', 'keyedge', 100, 600, None), ('debug', 'mapedge', 600, 80, None), ('debug', 'segwide', 1500, 50, None), ('release', 'segwide', 200, 400, None)])),
    'C11': P(TREES,
             [(['INV_POOL', 'BOUND'], TREES, None)],
             [(['SLOTS'], TREES, None)],
             [('debug', 'map', 200, 80, None), ('debug', 'set', 200, 80, None), ('debug', 'key', 200, 80, None),
              ('release', 'map', 30, 1500, None), ('release', 'set', 30, 1500, None), ('release', 'key', 30, 1500, None), ('release', 'churn', 6, 4000, {'ITV_SNAP_EVERY': '8'})],
             [('debug', 'map', 2000, 80, None), ('debug', 'set', 2000, 80, None), ('debug', 'key', 2000, 80, None),
              ('release', 'map', 300, 1500, None), ('release', 'set', 300, 1500, None), ('release', 'key', 300, 1500, None), ('release', 'churn', 30, 40000, {'ITV_SNAP_EVERY': '64'})],
             sample_ops=['I', 'D', 'C', 'X'], extra=dict(quick=[('debug', 'keyedge', 150, 80, None), ('debug', 'mapedge', 60, 80, None)], thorough=[('debug', 'keyedge', 1500, 80, None), ('release', 'keyedge', 100, 600, None), ('debug', 'mapedge', 600, 80, None)])),
    'C12': P(ALL,
             [(['TWIN'], ALL, None)],
             [],
             [('debug', 'twin', 400, 40, None)],
             [('debug', 'twin', 6000, 40, None), ('release', 'twin', 600, 400, None)],
             sample_ops=['C'], extra=dict(quick=[], thorough=[])),
    'C13': P(LISTS,
             [(['SPEC', 'ABS'] + DEAD, LISTS, None)],
             [(['ANS', 'STATE'], LISTS, None)],
             [('debug', 'map', 300, 80, None), ('debug', 'set', 300, 80, None), ('debug', 'key', 300, 80, None), ('release', 'key', 60, 600, None),
              ('release', 'mapx', 1, 5, None), ('release', 'setx', 1, 5, None), ('release', 'keyx', 1, 3, None)],
             [('debug', 'map', 3000, 80, None), ('debug', 'set', 3000, 80, None), ('debug', 'key', 3000, 80, None), ('release', 'key', 600, 600, None),
              ('release', 'mapx', 1, 6, None), ('release', 'setx', 1, 6, None), ('release', 'keyx', 1, 4, None)], extra=dict(quick=[('debug', 'keyedge', 150, 80, None), ('debug', 'mapedge', 60, 80, None)], thorough=[('debug', 'keyedge', 1500, 80, None), ('release', 'keyedge', 100, 600, None), ('debug', 'mapedge', 600, 80, None)])),
    'C14': P(['seg'],
             [(['LAYOUTSPEC'], ['seg'], None), (DEAD, ['seg'], ['N', 'I', 'Q'])],
             [(['LAYOUT'], ['seg'], None)],
             layout() + [('debug', 'seg', 300, 40, None)],
             layout(deep=True) + [('debug', 'seg', 3000, 40, None)],
             sample_ops=['N', 'I', 'Q'], extra=dict(quick=[('debug', 'segwide', 150, 50, None)], thorough=[('debug', 'segwide', 1500, 50, None), ('release', 'segwide', 200, 400, None)])),
    'C15': P(['seg'],
             [(['TILING'], ['seg'], ['I']), (['SPEC'], ['seg'], ['Q'])],
             [(['CHUNKS'], ['seg'], ['I'])],
             [('debug', 'seg', 300, 40, None), ('debug', 'segwide', 150, 50, None)] + seg32(),
             seg32() + seg32('debug') + [('release', 'seg', 1500, 400, None), ('debug', 'seg', 3000, 40, None), ('debug', 'segwide', 1500, 50, None), ('release', 'segwide', 200, 400, None)],
             sample_ops=['I', 'Q']),
    'C16': P(['seg'],
             [(['PURGE'], ['seg'], ['Q'])],
             [(['CHUNKS'], ['seg'], ['Q'])],
             [('debug', 'seg', 600, 40, None), ('release', 'seg', 100, 400, None)],
             [('debug', 'seg', 6000, 40, None), ('release', 'seg', 1500, 400, None)],
             sample_ops=['Q'], extra=dict(quick=[('debug', 'segwide', 150, 50, None)], thorough=[('debug', 'segwide', 1500, 50, None), ('release', 'segwide', 200, 400, None)])),
    'C17': P(['maptree', 'settree'],
             [(['SPEC'] + DEAD, ['maptree', 'settree'], ['CHK', 'HOLD'])],
             [(['ANS', 'HANDLES'], ['maptree', 'settree'], ['CHK', 'HOLD'])],
             [('debug', 'map', 300, 80, None), ('debug', 'set', 300, 80, None), ('release', 'hold', 1, 5, None)],
             [('debug', 'map', 3000, 80, None), ('debug', 'set', 3000, 80, None), ('release', 'map', 300, 1500, None), ('release', 'set', 300, 1500, None), ('release', 'hold', 1, 6, None)],
             sample_ops=['CHK'], extra=dict(quick=[('debug', 'mapedge', 60, 80, None)], thorough=[('debug', 'mapedge', 600, 80, None)])),
    'C18': P(ALL,
             [(['TORN', 'INV_RB', 'INV_BST', 'INV_LINKS', 'INV_POOL', 'CRASH', 'HANG', 'PANIC2'], ALL, None)],
             [(['EVSTATE'], ALL, None)],
             [('debug', 'inject', 60, 25, None)],
             [('debug', 'inject', 1500, 30, None)]),
    'C19': P(['keytree', 'keylist'],
             [(['CAPBOUND'], ['keytree', 'keylist'], ['V'])],
             [(['CAP'], ['keytree', 'keylist'], ['V'])],
             [('debug', 'key', 300, 80, None), ('release', 'key', 60, 600, None), ('release', 'export', 1, 2000, {'ITV_SNAP_EVERY': '1000000'})],
             [('debug', 'key', 3000, 80, None), ('release', 'key', 600, 600, None), ('release', 'export', 1, 5000, {'ITV_SNAP_EVERY': '1000000'})],
             sample_ops=['V'], direct=dict(quick=[['bigexport', 300000]], thorough=[['bigexport', 5000000]]), extra=dict(quick=[('debug', 'keyedge', 150, 80, None)], thorough=[('debug', 'keyedge', 1500, 80, None), ('release', 'keyedge', 100, 600, None)])),
    'C20': P(['keytree', 'keylist'],
             [(['LIVEONLY'], ['keytree', 'keylist'], None)],
             [(['CALLS'], ['keytree'], None)],
             [('debug', 'key', 400, 80, None), ('release', 'key', 60, 600, None), ('release', 'keyx', 1, 3, None)],
             [('debug', 'key', 4000, 80, None), ('release', 'key', 600, 600, None), ('release', 'keyx', 1, 4, None)],
             sample_ops=['I', 'QL', 'QE', 'QB', 'QT', 'G'], extra=dict(quick=[('debug', 'keyedge', 150, 80, None)], thorough=[('debug', 'keyedge', 1500, 80, None), ('release', 'keyedge', 100, 600, None)])),
}

# large-state histories (harness/src/big.rs) for every property whose collections have thresholds
# that short histories cannot reach; C10 runs them in the debug build (overflow checks, debug
# assertions, unsafe-precondition checks), C18 as panic injection into the last operation
BIG_FOR = {'C01': ['key'], 'C02': ['map', 'set', 'key'], 'C04': ['map'], 'C05': ['set'], 'C06': ['key'], 'C07': ['key'],
           'C08': ['map', 'set'], 'C09': ['set'], 'C11': ['map', 'set', 'key'], 'C13': ['map', 'set', 'key'],
           'C17': ['map', 'set'], 'C19': ['key'], 'C20': ['key']}
for _pid, _kinds in BIG_FOR.items():
    for _tier in ('quick', 'thorough'):
        PROPS[_pid]['batches'][_tier] = PROPS[_pid]['batches'][_tier] + big(_kinds, _tier)
for _tier in ('quick', 'thorough'):
    PROPS['C10']['batches'][_tier] = PROPS['C10']['batches'][_tier] + big(['map', 'set', 'key'], _tier, build='debug')
PROPS['C18']['batches']['quick'] = PROPS['C18']['batches']['quick'] + [('debug', 'biginject', 3, 600, {'ITV_HIST_TIMEOUT': '30'}), ('debug', 'biginject', 3, 600, {'ITV_HIST_TIMEOUT': '30'})]
PROPS['C18']['batches']['thorough'] = PROPS['C18']['batches']['thorough'] + [('debug', 'biginject', 21, 1200, {'ITV_HIST_TIMEOUT': '40'}), ('debug', 'biginject', 21, 1200, {'ITV_HIST_TIMEOUT': '40'}), ('release', 'biginject', 21, 1200, {'ITV_HIST_TIMEOUT': '40'}), ('release', 'biginject', 21, 1200, {'ITV_HIST_TIMEOUT': '40'})]

# direct checks on trees far deeper than the model runner replays (harness `itv deep n colls`): the
# reference answers are immediate, each row is the property's own predicate on the implementation
DEEP_FOR = {'C01': 'keytree', 'C02': 'maptree,settree,keytree', 'C04': 'maptree', 'C05': 'settree', 'C06': 'keytree', 'C07': 'keytree', 'C12': 'maptree,settree,keytree',
            'C08': 'maptree', 'C09': 'settree', 'C10': 'maptree,settree,keytree'}
for _pid, _colls in DEEP_FOR.items():
    _d = PROPS[_pid].setdefault('direct', dict(quick=[], thorough=[]))
    _d['quick'] = _d['quick'] + [['deep', 1 << 19, _colls]]
    _d['thorough'] = _d['thorough'] + [['deep', 1 << 22, _colls]]
    # a DEEP row of the property's collections and operation kinds is a failure of its predicate
    # (C02 counts only the HEIGHT rows, level INV_HEIGHT; C10 only a process that dies)
    if _pid == 'C12':
        PROPS[_pid]['predicate'].append((['DEEP'], TREES, ['C']))   # only the clear-and-reuse rows
    elif _pid not in ('C02', 'C10'):
        _lv, _cl, _ok = PROPS[_pid]['predicate'][0]
        PROPS[_pid]['predicate'][0] = (_lv + ['DEEP'], _cl, _ok)
PROPS['C12']['batches']['quick'] = PROPS['C12']['batches']['quick'] + [('release', 'bigtwin', 3, 1000, BIGENV), ('release', 'bigtwin', 3, 1000, BIGENV)]
PROPS['C12']['batches']['thorough'] = PROPS['C12']['batches']['thorough'] + [('release', 'bigtwin', 12, 0, BIGENV) for _ in range(4)]

# fill / thin / clear / refill cycles at sizes beyond the model runner, slot partition checked on the
# implementation's arena at every stage (harness `itv cycle n colls`); 7919 must not divide n
CYCLE_FOR = {'C02': 'maptree,settree,keytree', 'C04': 'maptree', 'C05': 'settree', 'C06': 'keytree',
             'C10': 'maptree,settree,keytree', 'C11': 'maptree,settree,keytree'}
for _pid, _colls in CYCLE_FOR.items():
    _d = PROPS[_pid].setdefault('direct', dict(quick=[], thorough=[]))
    _d['quick'] = _d['quick'] + [['cycle', 5000, _colls], ['cycle', 70000, _colls]]
    _d['thorough'] = _d['thorough'] + [['cycle', 5000, _colls], ['cycle', 70000, _colls], ['cycle', 1000000, _colls]]

# long bucket lists and thousands of expired copies in the segment tree (harness/src/big.rs, gen_big_seg)
SEGENV = {'ITV_SNAP_EVERY': '1000000', 'ITV_SNAP_KINDS': 'Q', 'ITV_HIST_TIMEOUT': '60'}
for _pid in ('C03', 'C16', 'C10'):
    PROPS[_pid]['batches']['quick'] = PROPS[_pid]['batches']['quick'] + [('debug', 'bigseg', 6, 0, SEGENV), ('release', 'bigseg', 6, 0, SEGENV)]
    PROPS[_pid]['batches']['thorough'] = PROPS[_pid]['batches']['thorough'] + [('debug', 'bigseg', 60, 0, SEGENV), ('release', 'bigseg', 60, 0, SEGENV)]

THINENV = {'ITV_HIST_TIMEOUT': '30', 'ITV_SNAP_EVERY': '3'}
# tall thin trees found by greedy search on the implementation (harness/src/big.rs, gen_thin)
for _pid in ('C02', 'C04', 'C05', 'C08', 'C09', 'C11', 'C13'):
    PROPS[_pid]['batches']['quick'] = PROPS[_pid]['batches']['quick'] + [('release', 'thin', 4, 0, THINENV)]
    PROPS[_pid]['batches']['thorough'] = PROPS[_pid]['batches']['thorough'] + [('release', 'thin', 40, 0, THINENV), ('debug', 'thin', 20, 0, THINENV)]
PROPS['C10']['batches']['quick'] = PROPS['C10']['batches']['quick'] + [('debug', 'thin', 3, 0, THINENV)]
PROPS['C10']['batches']['thorough'] = PROPS['C10']['batches']['thorough'] + [('debug', 'thin', 30, 0, THINENV)]


# random mid-size states with EVERY one-step continuation (every removal, every insertion gap; every
# ordered pair of removals from the smaller states; for the expiring-key tree every query kind for
# every key at three times, each on an independent copy), and the closure over all coloured SHAPES of
# up to N nodes (harness/src/big.rs gen_fan_*, harness/src/exhaust.rs gen_shapex)
FANENV = {'ITV_SNAP_EVERY': '1000000', 'ITV_HIST_TIMEOUT': '20'}


def fan(kind, tier, build='release'):
    """kind among map, set, key"""
    if kind == 'key':
        n, reps = (50, 3) if tier == 'quick' else (200, 6)
        return [(build, 'fankey', n, 0, FANENV) for _ in range(reps)]
    n1, n2, reps = (60, 30, 2) if tier == 'quick' else (300, 150, 4)
    return [(build, 'fan' + kind, n1, 0, FANENV) for _ in range(reps)] + [(build, 'fan' + kind, n2, 2, FANENV) for _ in range(reps)]


def shapex(kind, tier, build='release'):
    nmax, shards = (10, 1) if tier == 'quick' else (12, 6)
    return [(build, kind + 'shape', shards, nmax, FANENV) for _ in range(shards)]


FAN_FOR = {'C01': ['key'], 'C02': ['map', 'set', 'key'], 'C04': ['map'], 'C05': ['set'], 'C06': ['key'], 'C07': ['key'],
           'C08': ['map', 'set'], 'C09': ['set'], 'C11': ['map', 'set', 'key'], 'C13': ['map', 'set', 'key'],
           'C17': ['map', 'set'], 'C20': ['key']}
for _pid, _kinds in FAN_FOR.items():
    for _tier in ('quick', 'thorough'):
        for _k in _kinds:
            PROPS[_pid]['batches'][_tier] = PROPS[_pid]['batches'][_tier] + fan(_k, _tier)
            if _k != 'key' and _pid not in ('C13', 'C17'):
                PROPS[_pid]['batches'][_tier] = PROPS[_pid]['batches'][_tier] + shapex(_k, _tier)
for _tier in ('quick', 'thorough'):
    PROPS['C10']['batches'][_tier] = (PROPS['C10']['batches'][_tier] + fan('map', _tier, 'debug') + fan('set', _tier, 'debug')
                                      + fan('key', _tier, 'debug'))

FAN_FOR_KEY_EXTRA = ['C19']
for _pid in FAN_FOR_KEY_EXTRA:
    for _tier in ('quick', 'thorough'):
        PROPS[_pid]['batches'][_tier] = PROPS[_pid]['batches'][_tier] + fan('key', _tier)

# panic injection into every removal / expiring look-up from mid-size states (sorted runs included), and
# the dense segment-tree states with every drop point of a first query (harness/src/big.rs
# gen_fan_inject, gen_fan_seg)
INJENV = {'ITV_HIST_TIMEOUT': '20'}
PROPS['C18']['batches']['quick'] = PROPS['C18']['batches']['quick'] + [('debug', 'faninject', 6, 0, INJENV), ('debug', 'faninject', 6, 0, INJENV)]
PROPS['C18']['batches']['thorough'] = PROPS['C18']['batches']['thorough'] + [('debug', 'faninject', 12, 0, INJENV) for _ in range(6)] + [('release', 'faninject', 12, 0, INJENV) for _ in range(3)]
for _pid in ('C03', 'C16', 'C10'):
    _b = 'debug' if _pid == 'C10' else 'release'
    PROPS[_pid]['batches']['quick'] = PROPS[_pid]['batches']['quick'] + [(_b, 'fanseg', 4, 0, SEGENV), (_b, 'fanseg', 4, 0, SEGENV)]
    PROPS[_pid]['batches']['thorough'] = PROPS[_pid]['batches']['thorough'] + [(_b, 'fanseg', 8, 0, SEGENV) for _ in range(8)]
