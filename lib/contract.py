"""In-contract check for scripts (used when shrinking a failing history: a candidate that leaves the
contract of the collections proves nothing, because their behaviour is then undefined)."""
import bisect


def valid_script(lines):
    head = lines[0].split()
    coll = head[1]
    ops = [l.split() for l in lines[1:] if l.strip() and not l.startswith('#')]
    try:
        if coll in ('maptree', 'settree', 'maplist', 'setlist'):
            keys = []
            for w in ops:
                if w[0] == '~':
                    return False
                k = w[0]
                if k == 'I':
                    x = int(w[1]); i = bisect.bisect_left(keys, x)
                    if i < len(keys) and keys[i] == x:
                        return False
                    keys.insert(i, x)
                elif k == 'D':
                    x = int(w[1]); i = bisect.bisect_left(keys, x)
                    if i < len(keys) and keys[i] == x:
                        keys.pop(i)
                elif k == 'X':
                    x = int(w[1]); i = bisect.bisect_right(keys, x)
                    if i > 0:
                        keys.pop(i - 1)
                elif k == 'C':
                    keys = []
                elif k in ('A', 'B', 'WF', 'WB') and coll.startswith('map'):
                    return False
            return True
        if coll in ('keytree', 'keylist'):
            clock = None
            stored = {}
            for w in ops:
                fork = w[0] == '~'
                if fork:
                    w = w[1:]
                k = w[0]
                if k == 'I':
                    key, e, t = int(w[1]), int(w[2]), int(w[4])
                    if clock is not None and t < clock:
                        return False
                    if e < t:
                        return False
                    if key in stored and stored[key] > t:
                        return False
                    if not fork:
                        clock = t; stored[key] = e
                elif k in ('QL', 'QE', 'QB', 'QT', 'G'):
                    t = int(w[1])
                    if clock is not None and t < clock:
                        return False
                    if not fork:
                        clock = t
                elif k == 'V':
                    t = int(w[1])
                    if clock is not None and t < clock:
                        return False
                elif k == 'C':
                    if not fork:
                        clock = None; stored = {}
            return True
        if coll == 'seg':
            lo, hi = int(head[3]), int(head[4])
            clock = None
            for w in ops:
                if w[0] == 'I':
                    a, b = int(w[1]), int(w[2])
                    if not (lo <= a <= b <= hi):
                        return False
                elif w[0] == 'Q':
                    a, b, t = int(w[1]), int(w[2]), int(w[3])
                    if not (lo <= a <= b <= hi):
                        return False
                    if clock is not None and t < clock:
                        return False
                    clock = t
                elif w[0] == 'C':
                    clock = None
            return True
    except (ValueError, IndexError):
        return False
    return False
